(* The unix_io cache model refines a flat byte array: every read returns the
   bytes most recently written; after a flush the backing store equals the
   array and nothing is dirty.  Plus the partition arithmetic of threaded
   bitmap loading. *)
From E2V Require Import IoCache.IoModel.
From Coq Require Import ZArith ZifyN ZifyNat ZifyBool.
Local Open Scope N_scope.

Ltac split3 := split; [|split].

(* ---- byte functions ---- *)
Lemma rd_bytes_length d : forall n off, length (rd_bytes d off n) = n.
Proof. induction n; intros; simpl; auto. Qed.

Lemma rd_bytes_ext d1 d2 : forall n off,
  (forall o, off <= o < off + N.of_nat n -> d1 o = d2 o) -> rd_bytes d1 off n = rd_bytes d2 off n.
Proof.
  induction n; intros off H; simpl; [reflexivity|].
  rewrite (H off) by lia. f_equal. apply IHn. intros o Ho. apply H. lia.
Qed.

Lemma rd_bytes_app d : forall n m off,
  rd_bytes d off (n + m) = rd_bytes d off n ++ rd_bytes d (off + N.of_nat n) m.
Proof.
  induction n; intros m off; simpl.
  - f_equal. lia.
  - f_equal. rewrite IHn. f_equal. f_equal. lia.
Qed.

Lemma nth_rd_bytes d : forall n off k, (k < n)%nat -> nth k (rd_bytes d off n) 0 = d (off + N.of_nat k).
Proof.
  induction n; intros off k H; [lia|]. destruct k; simpl.
  - f_equal. lia.
  - rewrite IHn by lia. f_equal. lia.
Qed.

Lemma wr_bytes_spec : forall b d off o,
  wr_bytes d off b o =
  if (off <=? o) && (o <? off + N.of_nat (length b)) then nth (N.to_nat (o - off)) b 0 else d o.
Proof. reflexivity. Qed.

Lemma wr_bytes_app : forall a b d off o,
  wr_bytes d off (a ++ b) o = wr_bytes (wr_bytes d off a) (off + N.of_nat (length a)) b o.
Proof.
  intros a b d off o. rewrite !wr_bytes_spec, app_length, Nat2N.inj_add.
  destruct (N.leb_spec off o); destruct (N.ltb_spec o (off + (N.of_nat (length a) + N.of_nat (length b))));
    destruct (N.leb_spec (off + N.of_nat (length a)) o);
    destruct (N.ltb_spec o (off + N.of_nat (length a) + N.of_nat (length b)));
    destruct (N.ltb_spec o (off + N.of_nat (length a))); cbn [andb]; try lia; try reflexivity.
  - rewrite app_nth2 by lia. f_equal. lia.
  - rewrite app_nth1 by lia. reflexivity.
Qed.

Lemma rd_wr_same d off b : rd_bytes (wr_bytes d off b) off (length b) = b.
Proof.
  apply nth_ext with (d := 0) (d' := 0); [apply rd_bytes_length|].
  intros k Hk. rewrite rd_bytes_length in Hk. rewrite nth_rd_bytes by auto. rewrite wr_bytes_spec.
  destruct (N.leb_spec off (off + N.of_nat k)); [|lia].
  destruct (N.ltb_spec (off + N.of_nat k) (off + N.of_nat (length b))); [|lia].
  cbn [andb]. f_equal. lia.
Qed.

(* ---- lists ---- *)
Lemma length_set_nth {A} : forall (l : list A) i x, length (set_nth l i x) = length l.
Proof. induction l; intros [|i] x; simpl; auto. Qed.

Lemma nth_set_nth_eq {A} : forall (l : list A) i x d, (i < length l)%nat -> nth i (set_nth l i x) d = x.
Proof. induction l; intros [|i] x d H; simpl in *; try lia; auto. apply IHl. lia. Qed.

Lemma nth_set_nth_neq {A} : forall (l : list A) i j x d, i <> j -> nth j (set_nth l i x) d = nth j l d.
Proof. induction l; intros [|i] [|j] x d H; simpl; auto; try lia. Qed.

Lemma In_set_nth {A} : forall (l : list A) i x e, In e (set_nth l i x) -> e = x \/ In e l.
Proof.
  induction l; intros [|i] x e H; simpl in *; try tauto.
  - destruct H; auto.
  - destruct H; auto. destruct (IHl _ _ _ H); auto.
Qed.

Lemma In_old_set_nth {A} : forall (l : list A) i x d e, In e l -> e = nth i l d \/ In e (set_nth l i x).
Proof.
  induction l; intros [|i] x d e H; simpl in *; try tauto.
  - destruct H; auto.
  - destruct H; auto. destruct (IHl i x d _ H); auto.
Qed.

Lemma In_nth_ex {A} (l : list A) e d : In e l -> exists i, (i < length l)%nat /\ nth i l d = e.
Proof. intros H. destruct (In_nth _ _ d H) as (i & A1 & A2). eauto. Qed.

(* ---- the invariant ---- *)
Definition covers (bsz : N) (e : entry) (o : N) := e_blk e * bsz <= o < e_blk e * bsz + bsz.

Record Inv (s : st) (sp : disk) : Prop := {
  i_bs : 0 < bs s;
  i_buf : forall e, In e (cache s) -> e_use e = true ->
          e_buf e = rd_bytes sp (e_blk e * bs s) (N.to_nat (bs s));
  i_dsk : forall o, (forall e, In e (cache s) -> e_use e = true -> e_dirty e = true -> ~ covers (bs s) e o) ->
          dsk s o = sp o;
  i_noc : nocache s = true -> forall e, In e (cache s) -> e_use e = false;
  i_uniq : forall i j, (i < length (cache s))%nat -> (j < length (cache s))%nat -> i <> j ->
           e_use (nth i (cache s) empty_entry) = true -> e_use (nth j (cache s) empty_entry) = true ->
           e_blk (nth i (cache s) empty_entry) <> e_blk (nth j (cache s) empty_entry);
}.

Lemma covers_same bsz e1 e2 o : 0 < bsz -> covers bsz e1 o -> covers bsz e2 o -> e_blk e1 = e_blk e2.
Proof. unfold covers. intros. nia. Qed.

(* ---- flush ---- *)
Lemma flush_entries_spec bsz sp inval : 0 < bsz -> forall c d c' d',
  (forall e, In e c -> e_use e = true -> e_buf e = rd_bytes sp (e_blk e * bsz) (N.to_nat bsz)) ->
  flush_entries bsz c d inval = (c', d') ->
  (forall o, (forall e, In e c -> e_use e = true -> e_dirty e = true -> ~ covers bsz e o) -> d o = sp o) ->
  (forall o, (forall o', d o' = sp o' -> d' o' = sp o') /\
             ((exists e, In e c /\ e_use e = true /\ e_dirty e = true /\ covers bsz e o) -> d' o = sp o)) /\
  length c' = length c /\
  (forall i, e_dirty (nth i c' empty_entry) = false /\
             e_blk (nth i c' empty_entry) = e_blk (nth i c empty_entry) /\
             e_buf (nth i c' empty_entry) = e_buf (nth i c empty_entry) /\
             e_use (nth i c' empty_entry) = (if inval then false else e_use (nth i c empty_entry))).
Proof.
  intros Hb. induction c as [|e t IH]; intros d c' d' HB F HD; cbn [flush_entries] in F.
  - inversion F; subst. split3.
    + intros o. split; auto; intros (e & H & _); destruct H.
    + reflexivity.
    + intros i. destruct i; simpl; destruct inval; auto.
  - set (d1 := if e_use e && e_dirty e then wr_bytes d (e_blk e * bsz) (e_buf e) else d) in *.
    destruct (flush_entries bsz t d1 inval) as [t' d2] eqn:E. inversion F; subst.
    assert (HB' : forall x, In x t -> e_use x = true -> e_buf x = rd_bytes sp (e_blk x * bsz) (N.to_nat bsz))
      by (intros; apply HB; simpl; auto).
    assert (Hd1 : forall o', d o' = sp o' -> d1 o' = sp o').
    { intros o' H. unfold d1. destruct (e_use e && e_dirty e) eqn:C; auto.
      apply andb_true_iff in C. destruct C as [C1 C2].
      rewrite wr_bytes_spec, (HB e (or_introl eq_refl) C1), rd_bytes_length, N2Nat.id.
      destruct ((e_blk e * bsz <=? o') && (o' <? e_blk e * bsz + bsz)) eqn:R; auto.
      apply andb_true_iff in R. destruct R as [R1 R2]. apply N.leb_le in R1. apply N.ltb_lt in R2.
      rewrite nth_rd_bytes by lia. f_equal. lia. }
    assert (Hd1c : e_use e = true -> e_dirty e = true -> forall o, covers bsz e o -> d1 o = sp o).
    { intros C1 C2 o Co. unfold d1. rewrite C1, C2. cbn [andb].
      rewrite wr_bytes_spec, (HB e (or_introl eq_refl) C1), rd_bytes_length, N2Nat.id.
      unfold covers in Co. destruct (N.leb_spec (e_blk e * bsz) o); [|lia].
      destruct (N.ltb_spec o (e_blk e * bsz + bsz)); [|lia]. cbn [andb].
      rewrite nth_rd_bytes by lia. f_equal. lia. }
    destruct (IH d1 t' d' HB' E) as (A1 & A2 & A3).
    { intros o Ho. destruct (e_use e) eqn:C1; [destruct (e_dirty e) eqn:C2|].
      - destruct (N.le_gt_cases (e_blk e * bsz) o) as [G1|G1]; [destruct (N.lt_ge_cases o (e_blk e * bsz + bsz)) as [G2|G2]|].
        + apply Hd1c; auto. split; auto.
        + apply Hd1. apply HD. intros x [<-|Hx] U D; [unfold covers; lia|auto].
        + apply Hd1. apply HD. intros x [<-|Hx] U D; [unfold covers; lia|auto].
      - apply Hd1. apply HD. intros x [<-|Hx] U D; [congruence|auto].
      - apply Hd1. apply HD. intros x [<-|Hx] U D; [congruence|auto]. }
    split3.
    + intros o. destruct (A1 o) as [B1 B2]. split.
      * intros o' H. apply (proj1 (A1 o')). auto.
      * intros (x & [<-|Hx] & U & D & Co).
        -- apply (proj1 (A1 o)). apply Hd1c; auto.
        -- apply B2. eauto.
    + simpl. lia.
    + intros [|i]; simpl; [destruct inval; auto|apply A3].
Qed.

Definition cov_b (bsz o : N) (e : entry) : bool :=
  e_use e && e_dirty e && (e_blk e * bsz <=? o) && (o <? e_blk e * bsz + bsz).

Lemma cov_dec bsz o c :
  (exists e, In e c /\ e_use e = true /\ e_dirty e = true /\ covers bsz e o) \/
  (forall e, In e c -> e_use e = true -> e_dirty e = true -> ~ covers bsz e o).
Proof.
  destruct (existsb (cov_b bsz o) c) eqn:E.
  - left. apply existsb_exists in E. destruct E as (e & H1 & H2). exists e. unfold cov_b in H2.
    apply andb_true_iff in H2. destruct H2 as [H2 H5]. apply andb_true_iff in H2. destruct H2 as [H2 H4].
    apply andb_true_iff in H2. destruct H2 as [H2 H3]. unfold covers. repeat split; auto; lia.
  - right. intros e H1 U D C. assert (existsb (cov_b bsz o) c = true); [|congruence].
    apply existsb_exists. exists e. split; auto. unfold cov_b, covers in *. rewrite U, D. cbn [andb].
    apply andb_true_iff. split; lia.
Qed.

Lemma flush_ok s sp inval : Inv s sp ->
  let s' := flush s inval in
  Inv s' sp /\ (forall o, dsk s' o = sp o) /\
  (forall e, In e (cache s') -> e_dirty e = false) /\
  (inval = true -> forall e, In e (cache s') -> e_use e = false) /\
  bs s' = bs s /\ nocache s' = nocache s /\ wthru s' = wthru s /\ length (cache s') = length (cache s).
Proof.
  intros I. unfold flush. destruct (flush_entries (bs s) (cache s) (dsk s) inval) as [c' d'] eqn:F. cbn zeta.
  destruct (flush_entries_spec (bs s) sp inval (i_bs _ _ I) _ _ _ _ (i_buf _ _ I) F (i_dsk _ _ I)) as (A1 & A2 & A3).
  assert (D : forall o, d' o = sp o).
  { intros o. destruct (cov_dec (bs s) o (cache s)) as [H|H].
    - apply (proj2 (A1 o)). exact H.
    - apply (proj1 (A1 o)). apply (i_dsk _ _ I). exact H. }
  assert (EN : forall e, In e c' -> exists i, (i < length (cache s))%nat /\ nth i c' empty_entry = e).
  { intros e He. destruct (In_nth_ex _ _ empty_entry He) as (i & Hi & Hn). exists i. split; auto. lia. }
  split; [|split3; [exact D| | split3; [| reflexivity | split3; auto]]]; cbn [bs cache dsk nocache wthru].
  - constructor; cbn [bs cache dsk nocache wthru].
    + apply (i_bs _ _ I).
    + intros e He U. destruct (EN e He) as (i & Hi & <-). destruct (A3 i) as (B1 & B2 & B3 & B4).
      rewrite B2, B3. apply (i_buf _ _ I); [apply nth_In; auto|].
      rewrite B4 in U. destruct inval; [discriminate|exact U].
    + intros o _. apply D.
    + intros NC e He. destruct (EN e He) as (i & Hi & <-). destruct (A3 i) as (B1 & B2 & B3 & B4).
      rewrite B4. destruct inval; auto. apply (i_noc _ _ I NC). apply nth_In; auto.
    + intros i j Hi Hj Hij U1 U2. rewrite A2 in Hi, Hj.
      destruct (A3 i) as (_ & B2 & _ & B4). destruct (A3 j) as (_ & C2 & _ & C4).
      rewrite B2, C2. rewrite B4 in U1. rewrite C4 in U2.
      destruct inval; [discriminate|]. apply (i_uniq _ _ I); auto.
  - intros e He. destruct (EN e He) as (i & Hi & <-). apply (A3 i).
  - intros -> e He. destruct (EN e He) as (i & Hi & <-). apply (A3 i).
Qed.

(* ---- lookups in the cache ---- *)
Lemma find_idx_some blk : forall c k i, find_idx blk c k = Some i ->
  (k <= i)%nat /\ (i - k < length c)%nat /\
  e_use (nth (i - k) c empty_entry) = true /\ e_blk (nth (i - k) c empty_entry) = blk.
Proof.
  induction c as [|e t IH]; intros k i H; simpl in H; [discriminate|].
  destruct (e_use e && (e_blk e =? blk)) eqn:C.
  - inversion H; subst. apply andb_true_iff in C. destruct C as [C1 C2]. apply N.eqb_eq in C2.
    replace (i - i)%nat with O by lia. simpl. repeat split; auto; lia.
  - apply IH in H. destruct H as (H1 & H2 & H3 & H4).
    replace (i - k)%nat with (S (i - S k)) by lia. simpl. repeat split; auto; lia.
Qed.

Lemma find_idx_none blk : forall c k, find_idx blk c k = None ->
  forall e, In e c -> e_use e = true -> e_blk e <> blk.
Proof.
  induction c as [|x t IH]; intros k H e He U; simpl in *; [tauto|].
  destruct (e_use x && (e_blk x =? blk)) eqn:C; [discriminate|].
  destruct He as [<-|He]; [|eapply IH; eauto].
  rewrite U in C. simpl in C. apply N.eqb_neq in C. exact C.
Qed.

Lemma first_unused_lt : forall c k i, first_unused c k = Some i -> (k <= i)%nat /\ (i - k < length c)%nat.
Proof.
  induction c as [|e t IH]; intros k i H; simpl in H; [discriminate|].
  destruct (e_use e); [apply IH in H; simpl; lia|inversion H; subst; simpl; lia].
Qed.

Lemma oldest_lt : forall c k best i, oldest c k best = Some i ->
  (match best with Some (j, _) => (j < k)%nat | None => True end) ->
  (i < k + length c)%nat.
Proof.
  induction c as [|e t IH]; intros k best i H Hb; simpl in H.
  - destruct best as [[j a]|]; [inversion H; subst; simpl; lia|discriminate].
  - apply IH in H; [simpl; lia|].
    destruct best as [[j a]|]; [destruct (e_at e <? a)|]; lia.
Qed.

Lemma victim_lt c : (0 < length c)%nat -> (victim c < length c)%nat.
Proof.
  intros H. unfold victim. destruct (first_unused c 0) as [i|] eqn:F.
  - apply first_unused_lt in F. lia.
  - destruct (oldest c 0 None) as [i|] eqn:O; [|lia].
    apply oldest_lt in O; [lia|exact I].
Qed.

Lemma In_set_nth_pos {A} : forall (l : list A) i x d e, In e (set_nth l i x) ->
  e = x \/ exists j, j <> i /\ (j < length l)%nat /\ nth j l d = e.
Proof.
  induction l as [|y t IH]; intros [|i] x d e H; simpl in *; try tauto.
  - destruct H as [<-|H]; auto. right. destruct (In_nth_ex _ _ d H) as (j & J1 & J2).
    exists (S j). repeat split; auto; lia.
  - destruct H as [<-|H]; [right; exists O; repeat split; auto; lia|].
    destruct (IH i x d e H) as [->|(j & J1 & J2 & J3)]; auto.
    right. exists (S j). repeat split; auto; lia.
Qed.

Lemma set_nth_twice {A} : forall (l : list A) i x y, set_nth (set_nth l i x) i y = set_nth l i y.
Proof. induction l; intros [|i] x y; simpl; auto. f_equal. auto. Qed.

Definition inblk (bsz blk o : N) : bool := (blk * bsz <=? o) && (o <? blk * bsz + bsz).

Lemma set_entry_ok s sp sp' i blk (buf : bytes) (dirty' : bool) atm ck' wt' (wb : bool) (dsk' : disk) :
  Inv s sp -> nocache s = false ->
  (i < length (cache s))%nat ->
  let e := nth i (cache s) empty_entry in
  (forall j, (j < length (cache s))%nat -> j <> i ->
             e_use (nth j (cache s) empty_entry) = true -> e_blk (nth j (cache s) empty_entry) <> blk) ->
  length buf = N.to_nat (bs s) ->
  (forall o, sp' o = if inblk (bs s) blk o then nth (N.to_nat (o - blk * bs s)) buf 0 else sp o) ->
  dsk' = (if wb then wr_bytes (dsk s) (e_blk e * bs s) (e_buf e) else dsk s) ->
  (wb = true -> e_use e = true /\ e_blk e <> blk) ->
  (e_use e = true -> e_dirty e = true -> e_blk e <> blk -> wb = true) ->
  (dirty' = false -> forall o, inblk (bs s) blk o = true -> dsk' o = sp' o) ->
  Inv (mkSt (bs s) (set_nth (cache s) i (mkE true dirty' blk atm buf)) ck' false wt' dsk') sp'.
Proof.
  intros I NC Hi e Hab Hlen Hsp Hd Hwb1 Hwb2 Hcl.
  pose proof (i_bs _ _ I) as Hb.
  assert (Hsp_other : forall b o, b <> blk -> b * bs s <= o < b * bs s + bs s -> sp' o = sp o).
  { intros b o Hne Ho. rewrite Hsp. unfold inblk.
    destruct (N.leb_spec (blk * bs s) o); destruct (N.ltb_spec o (blk * bs s + bs s)); cbn [andb]; auto.
    exfalso. apply Hne. nia. }
  constructor; cbn [bs cache dsk nocache wthru].
  - exact Hb.
  - intros x Hx U. destruct (In_set_nth_pos _ _ _ empty_entry _ Hx) as [->|(j & J1 & J2 & J3)]; cbn [e_buf e_blk].
    + apply nth_ext with (d := 0) (d' := 0); [rewrite rd_bytes_length; auto|].
      intros k Hk. rewrite nth_rd_bytes by lia. rewrite Hsp. unfold inblk.
      destruct (N.leb_spec (blk * bs s) (blk * bs s + N.of_nat k)); [|lia].
      destruct (N.ltb_spec (blk * bs s + N.of_nat k) (blk * bs s + bs s)); [|lia]. cbn [andb]. f_equal. lia.
    + subst x. rewrite (i_buf _ _ I) by (auto; apply nth_In; auto).
      apply rd_bytes_ext. intros o Ho. symmetry. apply (Hsp_other (e_blk (nth j (cache s) empty_entry))); [|lia].
      apply Hab; auto.
  - intros o Ho.
    assert (Hother : forall j, (j < length (cache s))%nat -> j <> i ->
               e_use (nth j (cache s) empty_entry) = true -> e_dirty (nth j (cache s) empty_entry) = true ->
               ~ covers (bs s) (nth j (cache s) empty_entry) o).
    { intros j J1 J2 U D. apply Ho; auto. rewrite <- (nth_set_nth_neq (cache s) i j (mkE true dirty' blk atm buf) empty_entry) by auto.
      apply nth_In. rewrite length_set_nth. auto. }
    destruct (inblk (bs s) blk o) eqn:B.
    + destruct dirty' eqn:Dy; [|apply Hcl; auto].
      exfalso. apply (Ho (mkE true true blk atm buf)); auto.
      * rewrite <- (nth_set_nth_eq (cache s) i (mkE true true blk atm buf) empty_entry Hi) at 1.
        apply nth_In. rewrite length_set_nth. auto.
      * unfold covers, inblk in *. cbn [e_blk]. apply andb_true_iff in B. lia.
    + rewrite Hsp, B. subst dsk'.
      assert (Hold : (forall x, In x (cache s) -> e_use x = true -> e_dirty x = true -> ~ covers (bs s) x o) -> dsk s o = sp o)
        by apply (i_dsk _ _ I).
      destruct wb.
      * destruct (Hwb1 eq_refl) as [U Hne]. rewrite wr_bytes_spec.
        rewrite (i_buf _ _ I e) by (auto; apply nth_In; auto). rewrite rd_bytes_length, N2Nat.id.
        destruct (N.leb_spec (e_blk e * bs s) o); destruct (N.ltb_spec o (e_blk e * bs s + bs s)); cbn [andb].
        -- rewrite nth_rd_bytes by lia. f_equal. lia.
        -- apply Hold. intros x Hx Ux Dx. destruct (In_nth_ex _ _ empty_entry Hx) as (j & J1 & <-).
           destruct (Nat.eq_dec j i) as [->|Hj]; [unfold covers; fold e; lia|apply Hother; auto].
        -- apply Hold. intros x Hx Ux Dx. destruct (In_nth_ex _ _ empty_entry Hx) as (j & J1 & <-).
           destruct (Nat.eq_dec j i) as [->|Hj]; [unfold covers; fold e; lia|apply Hother; auto].
        -- lia.
      * apply Hold. intros x Hx Ux Dx. destruct (In_nth_ex _ _ empty_entry Hx) as (j & J1 & <-).
        destruct (Nat.eq_dec j i) as [->|Hj]; [|apply Hother; auto].
        fold e in Ux, Dx |- *. destruct (N.eq_dec (e_blk e) blk) as [E|E].
        -- unfold covers, inblk in *. rewrite E. intro C.
           destruct (N.leb_spec (blk * bs s) o); destruct (N.ltb_spec o (blk * bs s + bs s)); cbn [andb] in B; try discriminate; lia.
        -- specialize (Hwb2 Ux Dx E). discriminate.
  - discriminate.
  - rewrite length_set_nth. intros a b Ha Hb' Hab' U1 U2.
    destruct (Nat.eq_dec a i) as [->|Na]; destruct (Nat.eq_dec b i) as [->|Nb]; try lia.
    + rewrite nth_set_nth_eq by auto. rewrite nth_set_nth_neq in * by auto. cbn [e_blk].
      intro E. apply (Hab b); auto.
    + rewrite nth_set_nth_eq by auto. rewrite nth_set_nth_neq in * by auto. cbn [e_blk].
      apply Hab; auto.
    + rewrite !nth_set_nth_neq in * by auto. apply (i_uniq _ _ I); auto.
Qed.

(* caches that differ only in access times *)
Definition eqv (c c' : list entry) : Prop :=
  length c = length c' /\
  forall i, let a := nth i c empty_entry in let b := nth i c' empty_entry in
            e_use a = e_use b /\ e_dirty a = e_dirty b /\ e_blk a = e_blk b /\ e_buf a = e_buf b.

Lemma Inv_eqv s sp c' ck' : Inv s sp -> eqv (cache s) c' ->
  Inv (mkSt (bs s) c' ck' (nocache s) (wthru s) (dsk s)) sp.
Proof.
  intros I [EL EV]. constructor; cbn [bs cache dsk nocache wthru].
  - apply (i_bs _ _ I).
  - intros e He U. destruct (In_nth_ex _ _ empty_entry He) as (i & Hi & <-).
    destruct (EV i) as (A & B & C & D). cbv zeta in *. rewrite <- C, <- D.
    apply (i_buf _ _ I); [apply nth_In; lia|congruence].
  - intros o Ho. apply (i_dsk _ _ I). intros e He U D.
    destruct (In_nth_ex _ _ empty_entry He) as (i & Hi & <-).
    destruct (EV i) as (A & B & C & D'). cbv zeta in *.
    intro Cv. apply (Ho (nth i c' empty_entry)); try congruence; [apply nth_In; lia|].
    unfold covers in *. rewrite <- C. exact Cv.
  - intros NC e He. destruct (In_nth_ex _ _ empty_entry He) as (i & Hi & <-).
    destruct (EV i) as (A & _). cbv zeta in *. rewrite <- A. apply (i_noc _ _ I NC). apply nth_In. lia.
  - intros i j Hi Hj Hij U1 U2. destruct (EV i) as (A1 & _ & C1 & _). destruct (EV j) as (A2 & _ & C2 & _).
    cbv zeta in *. rewrite <- C1, <- C2. apply (i_uniq _ _ I); try lia; congruence.
Qed.

Lemma touch_ok s sp i : Inv s sp -> Inv (touch s i) sp /\ bs (touch s i) = bs s /\
  nocache (touch s i) = nocache s /\ wthru (touch s i) = wthru s /\ length (cache (touch s i)) = length (cache s).
Proof.
  intros I. unfold touch. split; [|cbn [bs nocache wthru cache]; rewrite length_set_nth; auto].
  apply Inv_eqv; auto. split; [rewrite length_set_nth; auto|].
  intros j. cbv zeta. destruct (Nat.eq_dec j i) as [->|N].
  - destruct (Nat.lt_ge_cases i (length (cache s))).
    + rewrite nth_set_nth_eq by auto. cbn. auto.
    + rewrite !nth_overflow by (rewrite ?length_set_nth; lia). auto.
  - rewrite nth_set_nth_neq by auto. auto.
Qed.

Lemma blk_mul_succ blk bsz : (blk + 1) * bsz = blk * bsz + bsz.
Proof. lia. Qed.

Lemma rd_cached_ok sp : forall cnt s blk,
  Inv s sp -> nocache s = false -> (0 < length (cache s))%nat ->
  let '(s', r) := rd_cached s blk cnt in
  Inv s' sp /\ r = rd_bytes sp (blk * bs s) (cnt * N.to_nat (bs s)) /\
  bs s' = bs s /\ nocache s' = false /\ wthru s' = wthru s /\ length (cache s') = length (cache s).
Proof.
  induction cnt; intros s blk I NC HL; cbn [rd_cached].
  - split; [exact I|]. repeat split; auto.
  - pose proof (i_bs _ _ I) as Hb.
    destruct (find_idx blk (cache s) 0) as [i|] eqn:F.
    + destruct (find_idx_some _ _ _ _ F) as (_ & F2 & F3 & F4). rewrite Nat.sub_0_r in *.
      destruct (touch_ok s sp i I) as (T1 & T2 & T3 & T4 & T5).
      specialize (IHcnt (touch s i) (blk + 1) T1 ltac:(congruence) ltac:(lia)).
      destruct (rd_cached (touch s i) (blk + 1) cnt) as [s2 r]. destruct IHcnt as (J1 & J2 & J3 & J4 & J5 & J6).
      split; [exact J1|]. split; [|repeat split; congruence].
      rewrite J2, T2. cbn [Nat.mul]. rewrite rd_bytes_app. f_equal.
      * rewrite (i_buf _ _ I _ (nth_In _ _ F2) F3), F4. reflexivity.
      * f_equal. rewrite N2Nat.id. lia.
    + pose proof (find_idx_none _ _ _ F) as FN.
      set (i := victim (cache s)). assert (Hi : (i < length (cache s))%nat) by (apply victim_lt; auto).
      set (data := rd_bytes (dsk s) (blk_off s blk) (N.to_nat (bs s))).
      assert (Hdsk : forall o, inblk (bs s) blk o = true -> dsk s o = sp o).
      { intros o Ho. apply (i_dsk _ _ I). intros e He U D Cv. apply (FN e He U).
        unfold covers, inblk in *. apply andb_true_iff in Ho. nia. }
      assert (Hdata : data = rd_bytes sp (blk * bs s) (N.to_nat (bs s))).
      { unfold data, blk_off. apply rd_bytes_ext. intros o Ho. apply Hdsk. unfold inblk. apply andb_true_iff. lia. }
      cbn [reuse bs cache clock nocache wthru dsk]. rewrite set_nth_twice.
      rewrite nth_set_nth_eq by auto. cbn [e_at]. rewrite NC.
      set (e := nth i (cache s) empty_entry).
      set (wb := e_use e && e_dirty e).
      set (d' := if wb then wr_bytes (dsk s) (blk_off s (e_blk e)) (e_buf e) else dsk s).
      assert (I2 : Inv (mkSt (bs s) (set_nth (cache s) i (mkE true false blk (clock s + 1) data)) (clock s + 1) false (wthru s) d') sp).
      { apply (set_entry_ok s sp sp i blk data false (clock s + 1) (clock s + 1) (wthru s) wb d'); auto.
        - intros j Hj _ U. apply FN; auto. apply nth_In; auto.
        - unfold data. apply rd_bytes_length.
        - intros o. destruct (inblk (bs s) blk o) eqn:B; auto. rewrite Hdata.
          unfold inblk in B. apply andb_true_iff in B. rewrite nth_rd_bytes by lia. f_equal. lia.
        - unfold wb. intros W. apply andb_true_iff in W. destruct W as [W1 W2]. split; auto.
          apply FN; auto. apply nth_In; auto.
        - intros U D _. unfold wb, e. rewrite U, D. reflexivity.
        - intros _ o Ho. unfold d'. destruct wb eqn:W; [|apply Hdsk; auto].
          rewrite wr_bytes_spec. unfold blk_off.
          assert (e_blk e <> blk).
          { unfold wb in W. apply andb_true_iff in W. apply FN; [apply nth_In; auto|tauto]. }
          unfold inblk in Ho. apply andb_true_iff in Ho.
          assert (length (e_buf e) = N.to_nat (bs s)).
          { unfold wb in W. apply andb_true_iff in W. rewrite (i_buf _ _ I e); [apply rd_bytes_length|apply nth_In; auto|tauto]. }
          destruct (N.leb_spec (e_blk e * bs s) o); destruct (N.ltb_spec o (e_blk e * bs s + N.of_nat (length (e_buf e)))); cbn [andb];
            try (apply Hdsk; unfold inblk; apply andb_true_iff; lia).
          exfalso. nia. }
      match goal with |- context [rd_cached ?S (blk + 1) cnt] => set (s2 := S) in * end.
      assert (Hl2 : length (cache s2) = length (cache s)) by (unfold s2; cbn [cache]; apply length_set_nth).
      specialize (IHcnt s2 (blk + 1)). unfold s2 in IHcnt at 1. cbn [nocache] in IHcnt.
      fold wb d' in IHcnt. specialize (IHcnt I2 eq_refl ltac:(lia)).
      destruct (rd_cached s2 (blk + 1) cnt) as [s3 r]. destruct IHcnt as (J1 & J2 & J3 & J4 & J5 & J6).
      split; [exact J1|]. split; [|unfold s2 in *; cbn [bs wthru cache] in *; repeat split; auto; lia].
      rewrite J2. unfold s2. cbn [bs Nat.mul]. rewrite rd_bytes_app. f_equal; [exact Hdata|].
      f_equal. rewrite N2Nat.id. lia.
Qed.

Lemma Inv_ext s sp sp' : Inv s sp -> (forall o, sp o = sp' o) -> Inv s sp'.
Proof.
  intros I E. constructor.
  - apply (i_bs _ _ I).
  - intros e He U. rewrite (i_buf _ _ I e He U). apply rd_bytes_ext. intros; apply E.
  - intros o Ho. rewrite <- E. apply (i_dsk _ _ I); auto.
  - apply (i_noc _ _ I).
  - apply (i_uniq _ _ I).
Qed.

Lemma wr_cached_ok : forall cnt s blk data sp,
  Inv s sp -> nocache s = false -> wthru s = false -> (0 < length (cache s))%nat ->
  length data = (cnt * N.to_nat (bs s))%nat ->
  let s' := wr_cached s blk cnt data in
  Inv s' (wr_bytes sp (blk * bs s) data) /\
  bs s' = bs s /\ nocache s' = false /\ wthru s' = false /\ length (cache s') = length (cache s).
Proof.
  induction cnt; intros s blk data sp I NC WT HL Hlen; cbn [wr_cached].
  - destruct data; [|discriminate]. split; [|repeat split; auto].
    apply (Inv_ext s sp); auto. intros o. rewrite wr_bytes_spec. cbn [length].
    destruct (N.leb_spec (blk * bs s) o); destruct (N.ltb_spec o (blk * bs s + N.of_nat 0)); cbn [andb]; auto; lia.
  - pose proof (i_bs _ _ I) as Hb.
    set (bsn := N.to_nat (bs s)) in *.
    set (buf := firstn bsn data). set (rest := skipn bsn data).
    assert (Lb : length buf = bsn) by (unfold buf; rewrite firstn_length; simpl in Hlen; lia).
    assert (Lr : length rest = (cnt * bsn)%nat) by (unfold rest; rewrite skipn_length; simpl in Hlen; lia).
    set (sp1 := wr_bytes sp (blk * bs s) buf).
    assert (Hsp1 : forall o, sp1 o = if inblk (bs s) blk o then nth (N.to_nat (o - blk * bs s)) buf 0 else sp o).
    { intros o. unfold sp1, inblk. rewrite wr_bytes_spec, Lb. unfold bsn. rewrite N2Nat.id. reflexivity. }
    assert (Hfin : forall o, wr_bytes sp1 ((blk + 1) * bs s) rest o = wr_bytes sp (blk * bs s) data o).
    { intros o. rewrite <- (firstn_skipn bsn data). fold buf rest. rewrite wr_bytes_app. fold sp1.
      rewrite Lb. unfold bsn. rewrite N2Nat.id. replace (blk * bs s + bs s) with ((blk + 1) * bs s) by lia. reflexivity. }

    destruct (find_idx blk (cache s) 0) as [i|] eqn:F.
    + destruct (find_idx_some _ _ _ _ F) as (_ & F2 & F3 & F4). rewrite Nat.sub_0_r in *.
      cbn [touch bs cache clock nocache wthru dsk]. rewrite set_nth_twice, WT, NC. cbn [negb].
      match goal with |- context [wr_cached ?S (blk + 1) cnt rest] => set (s2 := S) end.
      assert (I2 : Inv s2 sp1).
      { unfold s2. apply (set_entry_ok s sp sp1 i blk buf true _ (clock s + 1) false false (dsk s)); auto;
          try (intros; discriminate).
        all: try (intros U D C; exfalso; apply C; exact F4).
        intros j Hj Hji U E. apply (i_uniq _ _ I j i); auto. congruence. }
      destruct (IHcnt s2 (blk + 1) rest sp1 I2 eq_refl eq_refl) as (J1 & J2 & J3 & J4 & J5).
      { unfold s2. cbn [cache]. rewrite length_set_nth. auto. }
      { unfold s2. cbn [bs]. exact Lr. }
      unfold s2 in *. cbn [bs cache] in *. rewrite length_set_nth in J5.
      split; [eapply Inv_ext; [exact J1|exact Hfin]|auto].
    + pose proof (find_idx_none _ _ _ F) as FN.
      set (i := victim (cache s)). assert (Hi : (i < length (cache s))%nat) by (apply victim_lt; auto).
      cbn [reuse bs cache clock nocache wthru dsk]. rewrite set_nth_twice, WT, NC. cbn [negb].
      set (e := nth i (cache s) empty_entry).
      set (wb := e_use e && e_dirty e).
      match goal with |- context [wr_cached ?S (blk + 1) cnt rest] => set (s2 := S) end.
      assert (I2 : Inv s2 sp1).
      { unfold s2. apply (set_entry_ok s sp sp1 i blk buf true _ (clock s + 1) false wb); auto;
          try (intros; discriminate).
        - intros j Hj _ U. apply FN; auto. apply nth_In; auto.
        - unfold wb. intros W. apply andb_true_iff in W. destruct W as [W1 W2]. split; auto.
          apply FN; auto. apply nth_In; auto.
        - intros U D _. unfold wb, e. rewrite U, D. reflexivity. }
      destruct (IHcnt s2 (blk + 1) rest sp1 I2 eq_refl eq_refl) as (J1 & J2 & J3 & J4 & J5).
      { unfold s2. cbn [cache]. rewrite length_set_nth. auto. }
      { unfold s2. cbn [bs]. exact Lr. }
      unfold s2 in *. cbn [bs cache] in *. rewrite length_set_nth in J5.
      split; [eapply Inv_ext; [exact J1|exact Hfin]|auto].
Qed.

Lemma Inv_clean bsz c ck nc wt (d sp : disk) :
  0 < bsz -> (forall e, In e c -> e_use e = false) -> (forall o, d o = sp o) ->
  Inv (mkSt bsz c ck nc wt d) sp.
Proof.
  intros Hb Hc Hd. constructor; cbn [bs cache dsk nocache]; auto.
  - intros e He U. rewrite (Hc e He) in U. discriminate.
  - intros i j Hi _ _ U. rewrite (Hc _ (nth_In _ _ Hi)) in U. discriminate.
Qed.

Lemma wr_bytes_ext d1 d2 off b : (forall o, d1 o = d2 o) -> forall o, wr_bytes d1 off b o = wr_bytes d2 off b o.
Proof. intros H o. rewrite !wr_bytes_spec. destruct (_ && _); auto. Qed.

(* ---- write-through: the run with clean entries and one direct write at the end, compared with the
        write-back run of the same request ---- *)
Definition erel (blk0 : N) (cnt0 : nat) (a b : entry) : Prop :=
  e_use a = e_use b /\ e_blk a = e_blk b /\ e_at a = e_at b /\ e_buf a = e_buf b /\
  (e_dirty a = e_dirty b \/ (e_use a = true /\ blk0 <= e_blk a < blk0 + N.of_nat cnt0)).

Definition inrange (bsz blk0 : N) (cnt0 : nat) (o : N) : Prop := blk0 * bsz <= o < (blk0 + N.of_nat cnt0) * bsz.

Record Sim (blk0 : N) (cnt0 : nat) (sd sc : st) : Prop := {
  m_bs : bs sd = bs sc; m_ck : clock sd = clock sc; m_nc : nocache sd = nocache sc;
  m_wd : wthru sd = false; m_wc : wthru sc = true;
  m_ent : Forall2 (erel blk0 cnt0) (cache sd) (cache sc);
  m_dsk : forall o, ~ inrange (bs sd) blk0 cnt0 o -> dsk sd o = dsk sc o
}.

Lemma F2_find_idx blk0 cnt0 blk : forall c c' k, Forall2 (erel blk0 cnt0) c c' -> find_idx blk c k = find_idx blk c' k.
Proof.
  intros c c' k H. revert k. induction H as [|a b c c' R _ IH]; intros k; cbn [find_idx]; [reflexivity|].
  destruct R as (U & B & _). rewrite U, B. destruct (e_use b && (e_blk b =? blk)); [reflexivity|apply IH].
Qed.

Lemma F2_first_unused blk0 cnt0 : forall c c' k, Forall2 (erel blk0 cnt0) c c' -> first_unused c k = first_unused c' k.
Proof.
  intros c c' k H. revert k. induction H as [|a b c c' R _ IH]; intros k; cbn [first_unused]; [reflexivity|].
  destruct R as (U & _). rewrite U. destruct (e_use b); [apply IH|reflexivity].
Qed.

Lemma F2_oldest blk0 cnt0 : forall c c' k best, Forall2 (erel blk0 cnt0) c c' -> oldest c k best = oldest c' k best.
Proof.
  intros c c' k best H. revert k best. induction H as [|a b c c' R _ IH]; intros k best; cbn [oldest]; [reflexivity|].
  destruct R as (_ & _ & A & _). rewrite A. apply IH.
Qed.

Lemma F2_victim blk0 cnt0 c c' : Forall2 (erel blk0 cnt0) c c' -> victim c = victim c'.
Proof. intros H. unfold victim. rewrite (F2_first_unused _ _ _ _ 0%nat H), (F2_oldest _ _ _ _ 0%nat None H). reflexivity. Qed.

Lemma F2_nth blk0 cnt0 : forall c c' i, Forall2 (erel blk0 cnt0) c c' ->
  erel blk0 cnt0 (nth i c empty_entry) (nth i c' empty_entry).
Proof.
  intros c c' i H. revert i. induction H as [|a b c c' R _ IH]; intros [|i]; cbn [nth]; auto.
  - unfold erel. cbn. repeat split; auto.
  - unfold erel. cbn. repeat split; auto.
Qed.

Lemma F2_set_nth blk0 cnt0 : forall c c' i x y, Forall2 (erel blk0 cnt0) c c' -> erel blk0 cnt0 x y ->
  Forall2 (erel blk0 cnt0) (set_nth c i x) (set_nth c' i y).
Proof.
  intros c c' i x y H R. revert i. induction H as [|a b c c' R0 H IH]; intros [|i]; cbn [set_nth]; constructor; auto.
Qed.

Lemma sim_touch blk0 cnt0 sd sc i : Sim blk0 cnt0 sd sc -> Sim blk0 cnt0 (touch sd i) (touch sc i).
Proof.
  intros [A B C D E F G]. unfold touch. constructor; cbn [bs clock nocache wthru cache dsk]; auto; try congruence.
  apply F2_set_nth; auto. pose proof (F2_nth _ _ _ _ i F) as (U & Bk & At & Bf & Dy).
  unfold erel. cbn [e_use e_blk e_at e_buf e_dirty]. rewrite B. repeat split; auto.
Qed.

Lemma wr_bytes_outside d off b o : ~ (off <= o < off + N.of_nat (length b)) -> wr_bytes d off b o = d o.
Proof.
  intros H. rewrite wr_bytes_spec.
  destruct (N.leb_spec off o); destruct (N.ltb_spec o (off + N.of_nat (length b))); cbn [andb]; auto. exfalso. apply H. lia.
Qed.

(* retagging slot i for a block of the request, in both runs *)
Lemma sim_reuse blk0 cnt0 sd sc i blk : Sim blk0 cnt0 sd sc -> 0 < bs sd ->
  (forall e, In e (cache sd) -> e_use e = true -> length (e_buf e) = N.to_nat (bs sd)) ->
  Sim blk0 cnt0 (reuse sd i blk) (reuse sc i blk).
Proof.
  intros [A B C D E F G] Hb Hlen. unfold reuse.
  pose proof (F2_nth _ _ _ _ i F) as (U & Bk & At & Bf & Dy).
  constructor; cbn [bs clock nocache wthru cache dsk]; auto; try congruence.
  - apply F2_set_nth; auto. unfold erel. cbn [e_use e_blk e_at e_buf e_dirty]. rewrite B, Bf. repeat split; auto.
  - intros o Ho. unfold blk_off. rewrite <- A, <- U, <- Bk, <- Bf.
    set (a := nth i (cache sd) empty_entry) in *. set (b := nth i (cache sc) empty_entry) in *.
    destruct (e_use a) eqn:Ua; cbn [andb]; [|apply G; exact Ho].
    destruct Dy as [Dy|[_ Rg]].
    + rewrite <- Dy. destruct (e_dirty a); [|apply G; exact Ho].
      rewrite !wr_bytes_spec. destruct (_ && _); [reflexivity|apply G; exact Ho].
    + (* the entry belongs to the request: whatever is written lies inside the range *)
      assert (La : length (e_buf a) = N.to_nat (bs sd)).
      { destruct (Nat.lt_ge_cases i (length (cache sd))) as [Hi|Hi].
        - apply Hlen; [apply nth_In; exact Hi|exact Ua].
        - unfold a in Ua. rewrite nth_overflow in Ua by exact Hi. discriminate. }
      assert (Out : ~ (e_blk a * bs sd <= o < e_blk a * bs sd + N.of_nat (length (e_buf a)))).
      { rewrite La, N2Nat.id. intros X. apply Ho. unfold inrange. nia. }
      destruct (e_dirty a); destruct (e_dirty b); rewrite ?wr_bytes_outside by exact Out; apply G; exact Ho.
Qed.

Lemma sim_wr_cached blk0 cnt0 : forall cnt sd sc blk data,
  Sim blk0 cnt0 sd sc -> 0 < bs sd -> (0 < length (cache sd))%nat ->
  (forall e, In e (cache sd) -> e_use e = true -> length (e_buf e) = N.to_nat (bs sd)) ->
  length data = (cnt * N.to_nat (bs sd))%nat ->
  blk0 <= blk -> blk + N.of_nat cnt <= blk0 + N.of_nat cnt0 ->
  Sim blk0 cnt0 (wr_cached sd blk cnt data) (wr_cached sc blk cnt data).
Proof.
  induction cnt as [|cnt IH]; intros sd sc blk data S Hb HL Hlen Hd L1 L2; cbn [wr_cached]; [exact S|].
  pose proof (m_bs _ _ _ _ S) as EB. pose proof (m_ent _ _ _ _ S) as F.
  rewrite <- EB. rewrite <- (F2_find_idx _ _ blk _ _ 0%nat F).
  set (bsn := N.to_nat (bs sd)) in *.
  assert (Lb : length (firstn bsn data) = bsn) by (rewrite firstn_length; simpl in Hd; lia).
  assert (Lr : length (skipn bsn data) = (cnt * bsn)%nat) by (rewrite skipn_length; simpl in Hd; lia).
  assert (STEP : forall sd1 sc1 i, Sim blk0 cnt0 sd1 sc1 -> bs sd1 = bs sd -> length (cache sd1) = length (cache sd) ->
            (forall j, (j < length (cache sd1))%nat -> j <> i -> e_use (nth j (cache sd1) empty_entry) = true ->
                       length (e_buf (nth j (cache sd1) empty_entry)) = bsn) ->
            let e := nth i (cache sd1) empty_entry in let e' := nth i (cache sc1) empty_entry in
            Sim blk0 cnt0
              (wr_cached (mkSt (bs sd1) (set_nth (cache sd1) i (mkE true (negb (wthru sd1)) blk (e_at e) (firstn bsn data)))
                               (clock sd1) (nocache sd1) (wthru sd1) (dsk sd1)) (blk + 1) cnt (skipn bsn data))
              (wr_cached (mkSt (bs sc1) (set_nth (cache sc1) i (mkE true (negb (wthru sc1)) blk (e_at e') (firstn bsn data)))
                               (clock sc1) (nocache sc1) (wthru sc1) (dsk sc1)) (blk + 1) cnt (skipn bsn data))).
  { intros sd1 sc1 i S1 B1 Len1 Hl1 e e'.
    destruct S1 as [A1 B1' C1 D1 E1 F1 G1].
    pose proof (F2_nth _ _ _ _ i F1) as (_ & _ & At & _).
    apply IH; cbn [bs cache]; try lia.
    - constructor; cbn [bs clock nocache wthru cache dsk]; auto.
      apply F2_set_nth; auto. unfold erel. cbn [e_use e_blk e_at e_buf e_dirty]. unfold e, e'. rewrite At.
      repeat split; auto. right. split; [reflexivity|lia].
    - rewrite length_set_nth. lia.
    - rewrite B1. intros x Hx Ux. destruct (In_set_nth_pos _ _ _ empty_entry _ Hx) as [->|(j & J1 & J2 & J3)]; [cbn [e_buf]; exact Lb|].
      subst x. apply Hl1; auto. }
  assert (HlenN : forall j, (j < length (cache sd))%nat -> e_use (nth j (cache sd) empty_entry) = true ->
                           length (e_buf (nth j (cache sd) empty_entry)) = bsn).
  { intros j Hj U. apply Hlen; [apply nth_In; exact Hj|exact U]. }
  destruct (find_idx blk (cache sd) 0) as [i|] eqn:FI.
  - pose proof (sim_touch _ _ _ _ i S) as St.
    apply (STEP (touch sd i) (touch sc i) i St); cbn [touch bs cache]; auto.
    + rewrite length_set_nth. reflexivity.
    + rewrite length_set_nth. intros j Hj Hji. rewrite nth_set_nth_neq by auto. apply HlenN; exact Hj.
  - rewrite <- (F2_victim _ _ _ _ F).
    pose proof (sim_reuse _ _ _ _ (victim (cache sd)) blk S Hb Hlen) as Sr.
    apply (STEP (reuse sd (victim (cache sd)) blk) (reuse sc (victim (cache sd)) blk) (victim (cache sd)) Sr); cbn [reuse bs cache]; auto.
    + rewrite length_set_nth. reflexivity.
    + rewrite length_set_nth. intros j Hj Hji. rewrite nth_set_nth_neq by auto. apply HlenN; exact Hj.
Qed.

Lemma F2_length {A B} (R : A -> B -> Prop) l l' : Forall2 R l l' -> length l = length l'.
Proof. induction 1; cbn; auto. Qed.

Lemma erel_refl blk0 cnt0 c : Forall2 (erel blk0 cnt0) c c.
Proof. induction c; constructor; auto. unfold erel. repeat split; auto. Qed.

(* the write-through run, once its direct write is done, satisfies the invariant that the write-back run satisfies *)
Lemma sim_inv blk cnt sd sc sp' data :
  Sim blk cnt sd sc -> Inv sd sp' -> nocache sd = false ->
  length data = (cnt * N.to_nat (bs sd))%nat ->
  (forall o, wr_bytes sp' (blk * bs sd) data o = sp' o) ->
  Inv (mkSt (bs sc) (cache sc) (clock sc) (nocache sc) (wthru sc) (wr_bytes (dsk sc) (blk * bs sd) data)) sp'.
Proof.
  intros [A B C D E F G] I NC Hlen Hsp. pose proof (i_bs _ _ I) as Hb. pose proof (F2_length _ _ _ F) as FL.
  assert (Rng : forall o, inrange (bs sd) blk cnt o <-> blk * bs sd <= o < blk * bs sd + N.of_nat (length data)).
  { intros o. unfold inrange. rewrite Hlen. split; intros; nia. }
  constructor; cbn [bs cache dsk nocache wthru].
  - rewrite <- A. exact Hb.
  - intros e He U. destruct (In_nth_ex _ _ empty_entry He) as (i & Hi & <-).
    pose proof (F2_nth _ _ _ _ i F) as (U' & Bk & _ & Bf & _). rewrite <- A, <- Bk, <- Bf.
    apply (i_buf _ _ I); [apply nth_In; lia|congruence].
  - intros o Ho. rewrite <- Hsp. rewrite !wr_bytes_spec.
    destruct ((blk * bs sd <=? o) && (o <? blk * bs sd + N.of_nat (length data))) eqn:R; [reflexivity|].
    assert (NR : ~ inrange (bs sd) blk cnt o).
    { rewrite Rng. intros X. apply andb_false_iff in R. destruct R as [R|R]; [apply N.leb_gt in R|apply N.ltb_ge in R]; lia. }
    rewrite <- (G o NR). apply (i_dsk _ _ I). intros a Ha Ua Da Ca.
    destruct (In_nth_ex _ _ empty_entry Ha) as (i & Hi & <-).
    pose proof (F2_nth _ _ _ _ i F) as (U' & Bk & _ & _ & Dy).
    destruct Dy as [Dy|[_ Rg]].
    + apply (Ho (nth i (cache sc) empty_entry)); [apply nth_In; lia|congruence|congruence|].
      unfold covers in *. rewrite <- A, <- Bk. exact Ca.
    + apply NR. unfold inrange, covers in *. nia.
  - rewrite <- C, NC. discriminate.
  - rewrite <- FL. intros i j Hi Hj Hij U1 U2.
    pose proof (F2_nth _ _ _ _ i F) as (Ui & Bi & _). pose proof (F2_nth _ _ _ _ j F) as (Uj & Bj & _).
    rewrite <- Bi, <- Bj. apply (i_uniq _ _ I); auto; congruence.
Qed.

Definition wf_op (bsz : N) (o : op) : Prop :=
  match o with
  | Wr blk cnt data => length data = N.to_nat (cnt * bsz)
  | SetBlk n => 0 < n
  | _ => True
  end.

Fixpoint wf_ops (bsz : N) (ops : list op) : Prop :=
  match ops with
  | [] => True
  | o :: r => wf_op bsz o /\ wf_ops (match o with SetBlk n => n | _ => bsz end) r
  end.

Definition Good (s : st) (sp : disk) := Inv s sp /\ True /\ (0 < length (cache s))%nat.

Lemma step_ok s sp o : Good s sp -> wf_op (bs s) o ->
  let '(s', r) := step s o in
  let '(b', sp', r') := sp_step (bs s) sp o in
  Good s' sp' /\ r = r' /\ bs s' = b'.
Proof.
  intros (I & WT & HL) W. pose proof (i_bs _ _ I) as Hb.
  assert (NCd : nocache s = true -> forall o, dsk s o = sp o).
  { intros NC o0. apply (i_dsk _ _ I). intros e He U. rewrite (i_noc _ _ I NC e He) in U. discriminate. }
  destruct o; cbn [step sp_step].
  - (* Rd *)
    destruct (nocache s) eqn:NC.
    + split; [split3; auto|]. split; auto. f_equal. apply rd_bytes_ext. intros; apply NCd; auto.
    + destruct (WRITE_DIRECT_SIZE <? cnt).
      * destruct (flush_ok s sp false I) as (F1 & F2 & F3 & F4 & F5 & F6 & F7 & F8). cbv zeta in *.
        split; [split3; auto; try congruence; lia|]. split; auto. unfold blk_off. rewrite F5. f_equal.
        apply rd_bytes_ext. intros; apply F2.
      * pose proof (rd_cached_ok sp (N.to_nat cnt) s blk I NC HL) as R.
        destruct (rd_cached s blk (N.to_nat cnt)) as [s1 r]. destruct R as (R1 & R2 & R3 & R4 & R5 & R6).
        split; [split3; auto; try congruence; lia|]. split; auto. rewrite R2. f_equal. f_equal. lia.
  - (* RdB *)
    destruct (nocache s) eqn:NC.
    + split; [split3; auto|]. split; auto. f_equal. apply rd_bytes_ext. intros; apply NCd; auto.
    + destruct (flush_ok s sp false I) as (F1 & F2 & F3 & F4 & F5 & F6 & F7 & F8). cbv zeta in *.
      split; [split3; auto; try congruence; lia|]. split; auto. unfold blk_off. rewrite F5. f_equal.
      apply rd_bytes_ext. intros; apply F2.
  - (* Wr *)
    cbn [wf_op] in W. rewrite firstn_all2 by lia.
    destruct (nocache s) eqn:NC.
    + split; [|auto]. split3; auto. unfold blk_off.
      apply Inv_clean; auto; [apply (i_noc _ _ I NC)|]. apply wr_bytes_ext. apply NCd; auto.
    + destruct (WRITE_DIRECT_SIZE <? cnt).
      * destruct (flush_ok s sp true I) as (F1 & F2 & F3 & F4 & F5 & F6 & F7 & F8). cbv zeta in *.
        split; [|split; auto]. split3; cbn [wthru cache]; try congruence; try lia.
        unfold blk_off. rewrite F5. apply Inv_clean; auto. apply wr_bytes_ext. exact F2.
      * destruct (wthru s) eqn:WTs.
        -- (* write-through: compare with the write-back run of the same request from the same state *)
           set (sf := mkSt (bs s) (cache s) (clock s) (nocache s) false (dsk s)).
           assert (If : Inv sf sp) by (destruct I as [A B C D E]; constructor; auto).
           destruct (wr_cached_ok (N.to_nat cnt) sf blk data sp If NC eq_refl HL) as (J1 & J2 & J3 & J4 & J5); [cbn [sf bs]; lia|].
           cbv zeta in *. cbn [sf bs cache] in J1, J2, J5.
           assert (S0 : Sim blk (N.to_nat cnt) sf s).
           { constructor; cbn [sf bs clock nocache wthru cache dsk]; auto. apply erel_refl. }
           assert (Lenb : forall e, In e (cache sf) -> e_use e = true -> length (e_buf e) = N.to_nat (bs sf)).
           { intros e He U. rewrite (i_buf _ _ If e He U). apply rd_bytes_length. }
           pose proof (sim_wr_cached blk (N.to_nat cnt) (N.to_nat cnt) sf s blk data S0 Hb HL Lenb ltac:(cbn [sf bs]; lia) ltac:(lia) ltac:(lia)) as S1.
           pose proof (sim_inv blk (N.to_nat cnt) _ _ _ data S1 J1 J3 ltac:(rewrite J2; cbn [sf bs]; lia)) as K.
           rewrite J2 in K. cbn [sf bs] in K.
           assert (Idem : forall o, wr_bytes (wr_bytes sp (blk * bs s) data) (blk * bs s) data o = wr_bytes sp (blk * bs s) data o).
           { intros o. rewrite !wr_bytes_spec. destruct (_ && _); reflexivity. }
           specialize (K Idem).
           pose proof (m_bs _ _ _ _ S1) as EB. rewrite J2 in EB. cbn [sf bs] in EB.
           pose proof (F2_length _ _ _ (m_ent _ _ _ _ S1)) as EL. rewrite J5 in EL.
           unfold blk_off. split; [|split; [reflexivity|cbn [bs]; congruence]].
           split3; [exact K|exact Logic.I|cbn [cache]; lia].
        -- destruct (wr_cached_ok (N.to_nat cnt) s blk data sp I NC WTs HL) as (J1 & J2 & J3 & J4 & J5); [lia|].
           cbv zeta in *. split; [|split; auto]. split3; auto. lia.
  - (* WrB *)
    destruct (nocache s) eqn:NC.
    + split; [|auto]. split3; auto. unfold blk_off.
      apply Inv_clean; auto; [apply (i_noc _ _ I NC)|]. apply wr_bytes_ext. apply NCd; auto.
    + destruct (flush_ok s sp true I) as (F1 & F2 & F3 & F4 & F5 & F6 & F7 & F8). cbv zeta in *.
      split; [|split; auto]. split3; cbn [wthru cache]; try congruence; try lia.
      unfold blk_off. rewrite F5. apply Inv_clean; auto. apply wr_bytes_ext. exact F2.
  - (* WrByte *)
    destruct (flush_ok s sp true I) as (F1 & F2 & F3 & F4 & F5 & F6 & F7 & F8). cbv zeta in *.
    split; [|split; auto]. split3; cbn [wthru cache]; try congruence; try lia.
    rewrite F5. apply Inv_clean; auto. apply wr_bytes_ext. exact F2.
  - (* Zero *)
    destruct (flush_ok s sp true I) as (F1 & F2 & F3 & F4 & F5 & F6 & F7 & F8). cbv zeta in *.
    split; [|split; auto]. split3; cbn [wthru cache]; try congruence; try lia.
    unfold blk_off. rewrite F5. apply Inv_clean; auto. apply wr_bytes_ext. exact F2.
  - (* SetBlk *)
    cbn [wf_op] in W. destruct (N.eqb_spec n (bs s)) as [->|Hn].
    + split; [split3; auto|auto].
    + destruct (flush_ok s sp false I) as (F1 & F2 & F3 & F4 & F5 & F6 & F7 & F8). cbv zeta in *.
      split; [|split; auto]. split3; cbn [wthru cache]; try congruence.
      * apply Inv_clean; auto. intros e He. apply repeat_spec in He. subst. reflexivity.
      * rewrite repeat_length. lia.
  - (* Flush *)
    destruct (flush_ok s sp false I) as (F1 & F2 & F3 & F4 & F5 & F6 & F7 & F8). cbv zeta in *.
    split; [split3; auto; try congruence; lia|auto].
  - (* CacheOff *)
    destruct (flush_ok s sp true I) as (F1 & F2 & F3 & F4 & F5 & F6 & F7 & F8). cbv zeta in *.
    split; [|split; auto]. split3; cbn [wthru cache]; try congruence; try lia.
    rewrite F5. apply Inv_clean; auto.
  - (* CacheOn *)
    split; [|auto]. split3; cbn [wthru cache]; auto.
    destruct I as [A B C D E]. constructor; cbn [bs cache dsk nocache]; auto. discriminate.
  - (* WThru *)
    split; [|auto]. split3; cbn [wthru cache]; auto.
    destruct I as [A B C D E]. constructor; cbn [bs cache dsk nocache]; auto.
Qed.

Theorem run_refines_bytes : forall ops s sp,
  Good s sp -> wf_ops (bs s) ops ->
  fst (run s ops) = fst (sp_run (bs s) sp ops) /\
  Good (snd (run s ops)) (snd (sp_run (bs s) sp ops)).
Proof.
  induction ops as [|o ops IH]; intros s sp G W; cbn [run sp_run].
  - split; auto.
  - destruct W as [W1 W2]. pose proof (step_ok s sp o G W1) as S.
    assert (Hb1 : fst (fst (sp_step (bs s) sp o)) = match o with SetBlk n => n | _ => bs s end)
      by (destruct o; reflexivity).
    destruct (step s o) as [s1 r]. destruct (sp_step (bs s) sp o) as [[b1 sp1] r'].
    destruct S as (G1 & -> & Eb). cbn [fst] in Hb1. rewrite <- Hb1, <- Eb in W2.
    destruct (IH s1 sp1 G1 W2) as [E1 E2]. rewrite <- Eb.
    destruct (run s1 ops) as [xs s2]. destruct (sp_run (bs s1) sp1 ops) as [ys sp2].
    cbn [fst snd] in *. split; [f_equal; auto|auto].
Qed.

(* after a flush the backing store equals the byte array and nothing is dirty *)
Theorem flush_durable s sp : Good s sp ->
  forall o, dsk (fst (step s Flush)) o = sp o.
Proof. intros (I & _ & _) o. cbn [step fst]. apply (flush_ok s sp false I). Qed.

Theorem flush_clean s sp : Good s sp ->
  forall e, In e (cache (fst (step s Flush))) -> e_dirty e = false.
Proof. intros (I & _ & _). cbn [step fst]. apply (flush_ok s sp false I). Qed.

Lemma init_good bsz n d : 0 < bsz -> (0 < n)%nat -> Good (init bsz n d) d.
Proof.
  intros Hb Hn. split3; cbn [init wthru cache]; [|reflexivity|rewrite repeat_length; auto].
  apply Inv_clean; auto. intros e He. apply repeat_spec in He. subst. reflexivity.
Qed.

(* ---- threaded bitmap loading: the group ranges partition [0, count) ---- *)
Lemma mul_lt_cases avg a b : a < b -> avg * a + avg <= avg * b.
Proof. intros H. replace (avg * a + avg) with (avg * (a + 1)) by lia. apply N.mul_le_mono_l. lia. Qed.

Lemma thread_partition avg n count g :
  0 < avg -> 2 <= n -> avg * n <= count -> g < count ->
  exists i, i < n /\ in_thread avg n count i g = true /\
            forall j, j < n -> in_thread avg n count j g = true -> j = i.
Proof.
  intros Ha Hn Hc Hg. unfold in_thread, thr_start, thr_end.
  assert (Hlast : avg * (n - 1) + avg <= count).
  { replace (avg * (n - 1) + avg) with (avg * n); auto. replace n with (n - 1 + 1) at 1 by lia. lia. }
  destruct (N.le_gt_cases g avg) as [G0|G0].
  - exists 0. split3; [lia| |].
    + destruct (N.eqb_spec 0 0); [|lia]. destruct (N.eqb_spec 0 (n - 1)); [lia|].
      apply andb_true_iff. split; apply N.leb_le; lia.
    + intros j Hj H. apply andb_true_iff in H. destruct H as [H1 H2]. apply N.leb_le in H1, H2.
      destruct (N.eqb_spec j 0); auto. exfalso.
      pose proof (mul_lt_cases avg 0 j ltac:(lia)). lia.
  - set (q := (g - 1) / avg).
    assert (Hq : avg * q <= g - 1 < avg * q + avg).
    { unfold q. pose proof (N.div_mod (g - 1) avg ltac:(lia)). pose proof (N.mod_lt (g - 1) avg ltac:(lia)). lia. }
    assert (Hq1 : 1 <= q).
    { destruct (N.eq_dec q 0) as [E|E]; [|lia]. rewrite E in Hq. lia. }
    assert (Uniq : forall j, avg * j + 1 <= g -> g <= avg * j + avg -> j = q).
    { intros j A B. destruct (N.lt_trichotomy j q) as [L|[E|L]]; auto; exfalso.
      - pose proof (mul_lt_cases avg j q L). lia.
      - pose proof (mul_lt_cases avg q j L). lia. }
    destruct (N.lt_ge_cases q (n - 1)) as [Q|Q].
    + exists q. split3; [lia| |].
      * destruct (N.eqb_spec q 0); [lia|]. destruct (N.eqb_spec q (n - 1)); [lia|].
        apply andb_true_iff. split; apply N.leb_le; lia.
      * intros j Hj H. apply andb_true_iff in H. destruct H as [H1 H2]. apply N.leb_le in H1, H2.
        destruct (N.eqb_spec j 0) as [->|J0].
        -- exfalso. destruct (N.eqb_spec 0 (n - 1)); lia.
        -- destruct (N.eqb_spec j (n - 1)) as [->|J1].
           ++ exfalso. pose proof (mul_lt_cases avg q (n - 1) Q). lia.
           ++ apply Uniq; lia.
    + exists (n - 1). split3; [lia| |].
      * destruct (N.eqb_spec (n - 1) 0); [lia|]. destruct (N.eqb_spec (n - 1) (n - 1)); [|lia].
        apply andb_true_iff. split; apply N.leb_le; [|lia].
        destruct (N.eq_dec q (n - 1)) as [<-|NE]; [lia|].
        pose proof (mul_lt_cases avg (n - 1) q ltac:(lia)). lia.
      * intros j Hj H. apply andb_true_iff in H. destruct H as [H1 H2]. apply N.leb_le in H1, H2.
        destruct (N.eqb_spec j 0) as [->|J0].
        -- exfalso. destruct (N.eqb_spec 0 (n - 1)); lia.
        -- destruct (N.eqb_spec j (n - 1)) as [->|J1]; auto.
           exfalso. assert (j = q) by (apply Uniq; lia). lia.
Qed.

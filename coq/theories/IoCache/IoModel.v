(* Model of the unix_io.c block cache (lib/ext2fs/unix_io.c, repaired code):
   CACHE_SIZE entries {in_use, dirty, block, access_time, buf}, LRU victim,
   direct path for odd-sized / large transfers, write-through, write_byte,
   zeroout/discard, set_blksize, cache=on/off, flush.  The backing file is a
   byte function; raw reads/writes are exact (no failure schedule here - the
   error paths are exercised by the fault oracle of the C17 check).
   The run detection of unix_read_blk64 (one pread for several uncached
   blocks) is modelled block by block: raw reads do not change the cache, and
   the blocks of a run are by construction not cached, so the bytes are the
   same. *)
From Coq Require Export List NArith Arith Bool Lia.
Export ListNotations.
Local Open Scope N_scope.

Definition bytes := list N.
Definition disk := N -> N.              (* byte at absolute offset *)

Record entry := mkE { e_use : bool; e_dirty : bool; e_blk : N; e_at : N; e_buf : bytes }.
Record st := mkSt {
  bs : N;                 (* channel->block_size *)
  cache : list entry;     (* CACHE_SIZE entries *)
  clock : N;              (* data->access_time *)
  nocache : bool;         (* IO_FLAG_NOCACHE *)
  wthru : bool;           (* CHANNEL_FLAGS_WRITETHROUGH *)
  dsk : disk;
}.

Definition WRITE_DIRECT_SIZE := 4.

Fixpoint rd_bytes (d : disk) (off : N) (n : nat) : bytes :=
  match n with O => [] | S k => d off :: rd_bytes d (off + 1) k end.

(* one pwrite: the bytes [b] replace the device contents at [off ..] *)
Definition wr_bytes (d : disk) (off : N) (b : bytes) : disk :=
  let n := N.of_nat (length b) in
  let hi := off + n in
  fun o => if (off <=? o) && (o <? hi)
           then nth (N.to_nat (o - off)) b 0 else d o.

Definition empty_entry := mkE false false 0 0 [].
Definition init (blocksize : N) (n : nat) (d : disk) : st :=
  mkSt blocksize (repeat empty_entry n) 0 false false d.

(* find_cached_block: first in-use entry holding [blk] *)
Fixpoint find_idx (blk : N) (c : list entry) (i : nat) : option nat :=
  match c with
  | [] => None
  | e :: t => if e_use e && (e_blk e =? blk) then Some i else find_idx blk t (S i)
  end.

(* victim: first unused entry, else the in-use entry with the smallest access time (first on ties) *)
Fixpoint first_unused (c : list entry) (i : nat) : option nat :=
  match c with
  | [] => None
  | e :: t => if e_use e then first_unused t (S i) else Some i
  end.

Fixpoint oldest (c : list entry) (i : nat) (best : option (nat * N)) : option nat :=
  match c with
  | [] => match best with Some (j, _) => Some j | None => None end
  | e :: t =>
    let best' := match best with
                 | None => Some (i, e_at e)
                 | Some (j, a) => if e_at e <? a then Some (i, e_at e) else best
                 end in
    oldest t (S i) best'
  end.

Definition victim (c : list entry) : nat :=
  match first_unused c 0 with
  | Some i => i
  | None => match oldest c 0 None with Some i => i | None => O end
  end.

Fixpoint set_nth {A} (l : list A) (i : nat) (x : A) : list A :=
  match l, i with
  | [], _ => []
  | _ :: t, O => x :: t
  | y :: t, S k => y :: set_nth t k x
  end.

Definition blk_off (s : st) (blk : N) := blk * bs s.

(* reuse_cache: write back a dirty victim, then retag *)
Definition reuse (s : st) (i : nat) (blk : N) : st :=
  let e := nth i (cache s) empty_entry in
  let d := if e_use e && e_dirty e then wr_bytes (dsk s) (blk_off s (e_blk e)) (e_buf e) else dsk s in
  let ck := clock s + 1 in
  mkSt (bs s) (set_nth (cache s) i (mkE true false blk ck (e_buf e))) ck (nocache s) (wthru s) d.

Definition touch (s : st) (i : nat) : st :=
  let e := nth i (cache s) empty_entry in
  let ck := clock s + 1 in
  mkSt (bs s) (set_nth (cache s) i (mkE (e_use e) (e_dirty e) (e_blk e) ck (e_buf e))) ck
       (nocache s) (wthru s) (dsk s).

(* flush_cached_blocks(flags): dirty entries are written in slot order;
   with FLUSH_INVALIDATE every in-use entry is dropped (repaired code) *)
Fixpoint flush_entries (bsz : N) (c : list entry) (d : disk) (inval : bool) : list entry * disk :=
  match c with
  | [] => ([], d)
  | e :: t =>
    let d1 := if e_use e && e_dirty e then wr_bytes d (e_blk e * bsz) (e_buf e) else d in
    let e1 := mkE (if inval then false else e_use e) false (e_blk e) (e_at e) (e_buf e) in
    let '(t', d2) := flush_entries bsz t d1 inval in
    (e1 :: t', d2)
  end.

Definition flush (s : st) (inval : bool) : st :=
  let '(c, d) := flush_entries (bs s) (cache s) (dsk s) inval in
  mkSt (bs s) c (clock s) (nocache s) (wthru s) d.

(* cached read of [cnt] blocks starting at [blk] *)
Fixpoint rd_cached (s : st) (blk : N) (cnt : nat) : st * bytes :=
  match cnt with
  | O => (s, [])
  | S k =>
    match find_idx blk (cache s) 0 with
    | Some i =>
      let s1 := touch s i in
      let '(s2, r) := rd_cached s1 (blk + 1) k in
      (s2, e_buf (nth i (cache s) empty_entry) ++ r)
    | None =>
      let data := rd_bytes (dsk s) (blk_off s blk) (N.to_nat (bs s)) in
      let i := victim (cache s) in
      let s1 := reuse s i blk in
      let e := nth i (cache s1) empty_entry in
      let s2 := mkSt (bs s1) (set_nth (cache s1) i (mkE true false blk (e_at e) data))
                     (clock s1) (nocache s1) (wthru s1) (dsk s1) in
      let '(s3, r) := rd_cached s2 (blk + 1) k in
      (s3, data ++ r)
    end
  end.

Fixpoint wr_cached (s : st) (blk : N) (cnt : nat) (data : bytes) : st :=
  match cnt with
  | O => s
  | S k =>
    let buf := firstn (N.to_nat (bs s)) data in
    let '(s1, i) := match find_idx blk (cache s) 0 with
                    | Some i => (touch s i, i)
                    | None => let i := victim (cache s) in (reuse s i blk, i)
                    end in
    let e := nth i (cache s1) empty_entry in
    let s2 := mkSt (bs s1) (set_nth (cache s1) i (mkE true (negb (wthru s1)) blk (e_at e) buf))
                   (clock s1) (nocache s1) (wthru s1) (dsk s1) in
    wr_cached s2 (blk + 1) k (skipn (N.to_nat (bs s)) data)
  end.

Inductive op :=
| Rd (blk : N) (cnt : N)          (* cnt blocks *)
| RdB (blk : N) (nbytes : N)      (* count < 0: -count bytes *)
| Wr (blk : N) (cnt : N) (data : bytes)
| WrB (blk : N) (data : bytes)    (* count < 0: length data bytes *)
| WrByte (off : N) (data : bytes)
| Zero (blk cnt : N)
| SetBlk (n : N)
| Flush
| CacheOff | CacheOn
| WThru (on : bool).

Inductive res := RBytes (b : bytes) | ROk.

Definition step (s : st) (o : op) : st * res :=
  match o with
  | Rd blk cnt =>
    if nocache s then (s, RBytes (rd_bytes (dsk s) (blk_off s blk) (N.to_nat (cnt * bs s))))
    else if WRITE_DIRECT_SIZE <? cnt then
      let s1 := flush s false in
      (s1, RBytes (rd_bytes (dsk s1) (blk_off s1 blk) (N.to_nat (cnt * bs s1))))
    else let '(s1, r) := rd_cached s blk (N.to_nat cnt) in (s1, RBytes r)
  | RdB blk nb =>
    if nocache s then (s, RBytes (rd_bytes (dsk s) (blk_off s blk) (N.to_nat nb)))
    else let s1 := flush s false in
         (s1, RBytes (rd_bytes (dsk s1) (blk_off s1 blk) (N.to_nat nb)))
  | Wr blk cnt data =>
    let data := firstn (N.to_nat (cnt * bs s)) data in
    if nocache s then
      (mkSt (bs s) (cache s) (clock s) (nocache s) (wthru s) (wr_bytes (dsk s) (blk_off s blk) data), ROk)
    else if WRITE_DIRECT_SIZE <? cnt then
      let s1 := flush s true in
      (mkSt (bs s1) (cache s1) (clock s1) (nocache s1) (wthru s1) (wr_bytes (dsk s1) (blk_off s1 blk) data), ROk)
    else
      (* write-through: the direct write follows the cache update (repaired code): an older dirty copy of one of
         these blocks that the update evicts is written back first and then overwritten *)
      let s1 := wr_cached s blk (N.to_nat cnt) data in
      (if wthru s
       then mkSt (bs s1) (cache s1) (clock s1) (nocache s1) (wthru s1) (wr_bytes (dsk s1) (blk_off s blk) data)
       else s1, ROk)
  | WrB blk data =>
    if nocache s then
      (mkSt (bs s) (cache s) (clock s) (nocache s) (wthru s) (wr_bytes (dsk s) (blk_off s blk) data), ROk)
    else
      let s1 := flush s true in
      (mkSt (bs s1) (cache s1) (clock s1) (nocache s1) (wthru s1) (wr_bytes (dsk s1) (blk_off s1 blk) data), ROk)
  | WrByte off data =>
    let s1 := flush s true in
    (mkSt (bs s1) (cache s1) (clock s1) (nocache s1) (wthru s1) (wr_bytes (dsk s1) off data), ROk)
  | Zero blk cnt =>
    let s1 := flush s true in
    (mkSt (bs s1) (cache s1) (clock s1) (nocache s1) (wthru s1)
          (wr_bytes (dsk s1) (blk_off s1 blk) (repeat 0 (N.to_nat (cnt * bs s1)))), ROk)
  | SetBlk n =>
    if n =? bs s then (s, ROk) else
    let s1 := flush s false in
    (mkSt n (repeat empty_entry (length (cache s1))) 0 (nocache s1) (wthru s1) (dsk s1), ROk)
  | Flush => (flush s false, ROk)
  | CacheOff => let s1 := flush s true in
                (mkSt (bs s1) (cache s1) (clock s1) true (wthru s1) (dsk s1), ROk)
  | CacheOn => (mkSt (bs s) (cache s) (clock s) false (wthru s) (dsk s), ROk)
  | WThru on => (mkSt (bs s) (cache s) (clock s) (nocache s) on (dsk s), ROk)
  end.

Fixpoint run (s : st) (ops : list op) : list res * st :=
  match ops with
  | [] => ([], s)
  | o :: r => let '(s1, x) := step s o in let '(xs, s2) := run s1 r in (x :: xs, s2)
  end.

(* ---- the specification: one flat byte array ---- *)
Definition sp_step (bsz : N) (d : disk) (o : op) : N * disk * res :=
  match o with
  | Rd blk cnt => (bsz, d, RBytes (rd_bytes d (blk * bsz) (N.to_nat (cnt * bsz))))
  | RdB blk nb => (bsz, d, RBytes (rd_bytes d (blk * bsz) (N.to_nat nb)))
  | Wr blk cnt data => (bsz, wr_bytes d (blk * bsz) (firstn (N.to_nat (cnt * bsz)) data), ROk)
  | WrB blk data => (bsz, wr_bytes d (blk * bsz) data, ROk)
  | WrByte off data => (bsz, wr_bytes d off data, ROk)
  | Zero blk cnt => (bsz, wr_bytes d (blk * bsz) (repeat 0 (N.to_nat (cnt * bsz))), ROk)
  | SetBlk n => (n, d, ROk)
  | _ => (bsz, d, ROk)
  end.

Fixpoint sp_run (bsz : N) (d : disk) (ops : list op) : list res * disk :=
  match ops with
  | [] => ([], d)
  | o :: r => let '(b1, d1, x) := sp_step bsz d o in let '(xs, d2) := sp_run b1 d1 r in (x :: xs, d2)
  end.

(* ---- bitmap loading: the group ranges ext2fs_rw_bitmaps hands to its threads ---- *)
Definition thr_start (avg i : N) : N := if i =? 0 then 0 else avg * i + 1.
Definition thr_end (avg n count i : N) : N := if i =? n - 1 then count - 1 else avg * (i + 1).
Definition avg_group (count n flex : N) (has_flex : bool) : N :=
  let a := count / n in if has_flex then (a / flex) * flex else a.
Definition in_thread (avg n count i g : N) : bool :=
  (thr_start avg i <=? g) && (g <=? thr_end avg n count i).

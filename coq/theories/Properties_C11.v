(* C11 - tune2fs conversions preserve data and consistency: the proved part is the feature edit *)
From E2V Require Import Gen.FeatureMasks Tune.FeatureEdit Tune.FeatureEditProofs Tune.MntOpts Tune.MntOptsProofs.
Local Open Scope N_scope.

(* an accepted -O list changes no feature bit it does not name *)
Theorem edit_changes_only_requested : forall es cur new w b,
  Forall (fun e => (edit_word e < length cur)%nat) es ->
  tune2fs_edit cur es = Some new -> touches es w b = false ->
  N.testbit (word new w) b = N.testbit (word cur w) b.
Proof. exact (fun es => edit_untouched_lemma es src_ok_features src_clear_ok_features). Qed.
Print Assumptions edit_changes_only_requested.

(* the last item naming a bit decides it *)
Theorem edit_last_item_wins : forall es cur new e w b,
  Forall (fun e => (edit_word e < length cur)%nat) (es ++ [e]) ->
  tune2fs_edit cur (es ++ [e]) = Some new ->
  edit_word e = w -> N.testbit (edit_mask e) b = true ->
  N.testbit (word new w) b = match e with ESet _ _ => true | EClear _ _ => false end.
Proof. exact (fun es => edit_last_wins_lemma es src_ok_features src_clear_ok_features). Qed.
Print Assumptions edit_last_item_wins.

(* a list is accepted exactly when every item is within the masks of tune2fs.c *)
Theorem edit_accepted_iff_allowed : forall es cur,
  (exists new, tune2fs_edit cur es = Some new) <-> forallb (allowed src_ok_features src_clear_ok_features) es = true.
Proof.
  intros es cur. split.
  - intros [new H]. exact (edit_allowed_lemma es _ _ cur new H).
  - intros H. exact (edit_refused_lemma es _ _ cur H).
Qed.
Print Assumptions edit_accepted_iff_allowed.

(* what the regenerated masks say about the features whose removal or addition would need a rebuild:
   sparse_super and bigalloc can never be cleared, resize_inode, meta_bg and bigalloc never set *)
Theorem masks_protect_structure :
  allowed src_ok_features src_clear_ok_features (EClear 2 1) = false /\      (* sparse_super *)
  allowed src_ok_features src_clear_ok_features (EClear 2 512) = false /\    (* bigalloc *)
  allowed src_ok_features src_clear_ok_features (ESet 2 512) = false /\
  allowed src_ok_features src_clear_ok_features (ESet 0 16) = false /\       (* resize_inode *)
  allowed src_ok_features src_clear_ok_features (ESet 1 16) = false /\       (* meta_bg *)
  allowed src_ok_features src_clear_ok_features (EClear 1 64) = false /\     (* extents *)
  allowed src_ok_features src_clear_ok_features (EClear 1 32768) = false.    (* inline_data *)
Proof. vm_compute. repeat split; reflexivity. Qed.
Print Assumptions masks_protect_structure.

(* default mount options (tune2fs -o): naming a journal mode stores exactly that mode whatever was stored before
   (journal_data 0x20, journal_data_ordered 0x40, journal_data_writeback 0x60 share the field 0x60), and an item
   leaves every bit alone that is neither its own nor, for a journal mode, part of that field *)
Theorem mount_option_journal_mode_is_exact : forall cur m, (m = 32 \/ m = 64 \/ m = 96) ->
  N.land (mnt_step cur false m) JMODE = m.
Proof. intros cur m H; destruct H as [H|[H|H]]; subst m; apply set_jmode_exact; (reflexivity || discriminate). Qed.
Print Assumptions mount_option_journal_mode_is_exact.

Theorem mount_option_changes_only_its_bits : forall cur neg m i,
  N.testbit m i = false -> (N.land m JMODE <> 0 -> N.testbit JMODE i = false) ->
  N.testbit (mnt_step cur neg m) i = N.testbit cur i.
Proof. exact other_bits_kept. Qed.
Print Assumptions mount_option_changes_only_its_bits.

Example mount_option_example : mnt_run 12 [(false, 32); (false, 64)] = 76 /\ mnt_run 12 [(false, 96); (true, 32)] = 12 /\ mnt_run 12 [(true, 8); (false, 2048)] = 2052.
Proof. vm_compute. repeat split; reflexivity. Qed.

Example edit_example :
  tune2fs_edit [60; 706; 1131] [EClear 2 1024; ESet 2 16; ESet 1 1024] = Some [60; 1730; 123] /\
  tune2fs_edit [60; 706; 1131] [EClear 2 1] = None.
Proof. vm_compute. split; reflexivity. Qed.

From E2V Require Import Robust.Restart.

Lemma new_terminates : forall ro d fuel, 2 <= fuel ->
  exists n d', iterate (run_new ro) fuel d = Some (n, d') /\ n <= 1 /\ (ro = true -> d' = d /\ n = 0) /\ (ro = false -> d' = []).
Proof.
  intros ro d fuel H. destruct fuel as [|[|f]]; try lia.
  destruct d as [|g d]; cbn [iterate run_new].
  - exists 0, []. split; [reflexivity|]. split; [lia|]. split; intros _; [split|]; reflexivity.
  - destruct ro; cbn [iterate run_new].
    + exists 0, (g :: d). split; [reflexivity|]. split; [lia|]. split; [intros _; split; reflexivity|discriminate].
    + exists 1, []. split; [reflexivity|]. split; [lia|]. split; [discriminate|reflexivity].
Qed.

Lemma old_readonly_diverges : forall fuel d, d <> [] -> iterate (run_old true) fuel d = None.
Proof.
  induction fuel as [|f IH]; intros d H; [reflexivity|].
  destruct d as [|g d]; [congruence|]. cbn [iterate run_old]. rewrite IH by discriminate. reflexivity.
Qed.

Lemma old_writing_terminates : forall d fuel, 2 <= fuel ->
  exists n, iterate (run_old false) fuel d = Some (n, []) /\ n <= 1.
Proof.
  intros d fuel H. destruct fuel as [|[|f]]; try lia.
  destruct d as [|g d]; cbn [iterate run_old]; [exists 0|exists 1]; split; auto.
Qed.

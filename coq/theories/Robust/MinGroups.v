(* C06: the first step of resize2fs's minimum-size estimate (resize/resize2fs.c calculate_minimum_resize_size): how many
   groups the inodes in use need.  The result indexes the descriptor table (group [groups - 1]). *)
From Coq Require Export NArith Bool Lia.
Local Open Scope N_scope.

Definition U32 : N := 4294967296.
Definition div_ceil (a b : N) : N := (a + b - 1) / b.

(* None: "file system appears inconsistent", the estimate is the current size and no descriptor is looked up *)
Definition min_groups_new (inodes free ipg : N) : option N :=
  if inodes <=? free then None else Some (div_ceil (inodes - free) ipg).
(* before the repair: 32-bit subtraction, no guard *)
Definition min_groups_old (inodes free ipg : N) : option N :=
  Some (div_ceil ((inodes + U32 - free) mod U32) ipg).

(* the descriptor that is looked up afterwards exists *)
Definition lookup_in_range (gcount : N) (g : option N) : bool :=
  match g with None => true | Some g => (1 <=? g) && (g <=? gcount) end.

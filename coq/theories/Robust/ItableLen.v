(* misc/e2image.c mark_table_blocks(): how many blocks of a group's inode table go into the image.  The code works in
   'unsigned int': end = inode_blocks_per_group; end -= bg_itable_unused / inodes_per_block. *)
From Coq Require Export NArith Lia.
Local Open Scope N_scope.

Definition UINT32 : N := 4294967296.

(* as the code was: the subtraction wraps *)
Definition itable_len_old (n unused ipb : N) : N := (n + UINT32 - (unused / ipb) mod UINT32) mod UINT32.

(* as repaired: a count that does not fit the table is ignored *)
Definition itable_len_new (n unused ipb : N) : N :=
  let u := unused / ipb in if u <=? n then n - u else n.

From E2V Require Import Robust.ItableLen.
From Coq Require Import ZifyBool ZifyN.
Local Open Scope N_scope.

Lemma new_bounded : forall n unused ipb, itable_len_new n unused ipb <= n.
Proof.
  intros n unused ipb. unfold itable_len_new. cbv zeta. set (u := unused / ipb). clearbody u.
  destruct (u <=? n) eqn:E; [apply N.le_sub_l|apply N.le_refl].
Qed.

Lemma agree_when_sane : forall n unused ipb, n < UINT32 -> unused / ipb <= n ->
  itable_len_old n unused ipb = itable_len_new n unused ipb.
Proof.
  intros n unused ipb Hn Hu. unfold itable_len_old, itable_len_new. cbv zeta.
  assert (E : (unused / ipb <=? n) = true) by (apply N.leb_le; exact Hu). rewrite E.
  set (u := unused / ipb) in *. clearbody u. unfold UINT32 in *.
  rewrite (N.mod_small u) by lia.
  replace (n + 4294967296 - u) with ((n - u) + 1 * 4294967296) by lia.
  rewrite N.mod_add by lia. apply N.mod_small. lia.
Qed.

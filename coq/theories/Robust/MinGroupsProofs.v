From E2V Require Import Robust.MinGroups.
Local Open Scope N_scope.

Lemma min_groups_new_in_range : forall ipg gcount free,
  0 < ipg -> lookup_in_range gcount (min_groups_new (ipg * gcount) free ipg) = true.
Proof.
  intros ipg gcount free Hi. unfold min_groups_new, lookup_in_range.
  destruct (ipg * gcount <=? free) eqn:E; [reflexivity|].
  apply N.leb_gt in E. unfold div_ceil.
  set (u := ipg * gcount - free). assert (Hu : 1 <= u /\ u <= ipg * gcount) by (unfold u; lia).
  apply andb_true_intro. split; apply N.leb_le.
  - (* at least one group *)
    apply N.div_le_lower_bound; lia.
  - (* at most gcount groups: u + ipg - 1 < ipg * (gcount + 1) *)
    assert (H : (u + ipg - 1) / ipg < gcount + 1).
    { apply N.div_lt_upper_bound; [lia|]. lia. }
    lia.
Qed.

Lemma min_groups_old_refuted :
  lookup_in_range 2 (min_groups_old 4096 4096 2048) = false /\
  lookup_in_range 2 (min_groups_old 4096 99999999 2048) = false.
Proof. vm_compute. split; reflexivity. Qed.

(* e2fsck's restart protocol around missing inode tables (e2fsck/pass1.c handle_fs_bad_blocks, e2fsck/unix.c restart:).
   A group whose descriptor has inode table location 0 gets a new table at the end of pass 1; the run then starts again
   from the beginning and reads the descriptors from the device.  What the device holds after the restart depends on
   whether the run may write. *)
From Coq Require Export List Arith Bool Lia.
Export ListNotations.

(* the groups whose on-disk descriptor has no inode table *)
Definition disk := list nat.

Inductive outcome := Done (d : disk) | Restart (d : disk).

(* one pass over the filesystem, as the code was: relocation whenever something is missing; a read-only run cannot
   store the new locations (every write fails), a writing run stores them when the filesystem is closed for the restart *)
Definition run_old (readonly : bool) (d : disk) : outcome :=
  match d with
  | [] => Done []
  | _ :: _ => Restart (if readonly then d else [])
  end.

(* as repaired: a read-only run leaves the tables where they are and goes on *)
Definition run_new (readonly : bool) (d : disk) : outcome :=
  match d with
  | [] => Done []
  | _ :: _ => if readonly then Done d else Restart []
  end.

(* the whole program: number of restarts and the final device state, None when the fuel runs out *)
Fixpoint iterate (run : disk -> outcome) (fuel : nat) (d : disk) : option (nat * disk) :=
  match fuel with
  | O => None
  | S f =>
    match run d with
    | Done d' => Some (O, d')
    | Restart d' =>
      match iterate run f d' with
      | Some (n, d'') => Some (S n, d'')
      | None => None
      end
    end
  end.

(* line protocol of the correspondence check: restarts of a run on a device with k missing tables *)
Definition restarts (new_code readonly : bool) (k : nat) : option nat :=
  match iterate ((if new_code then run_new else run_old) readonly) 8 (seq 0 k) with
  | Some (n, _) => Some n
  | None => None
  end.

(* C16 - every bitmap implementation behaves as a set of integers.
   Only statements, closed by exact, with Print Assumptions beneath. *)
(* Bulk get/set of bit ranges: until the repair of the bit-array backend (da38f173) the refinement theorems carried the
   hypothesis that ranges start on a byte boundary of the bitmap and have a whole number of bytes; probing that boundary on
   the real code showed the two back ends disagreeing.  The only precondition left (op_pre) is that a SetRange request
   comes with at least as many bits as it asks to store. *)
From E2V Require Import Bitmap.BmGen Bitmap.RBModel Bitmap.BAModel Bitmap.FSetLemmas
     Bitmap.BackendOk Bitmap.RBProofs Bitmap.BAProofs Bitmap.GenProofs Bitmap.BmResize Bitmap.BmResizeProofs.
Local Open Scope N_scope.

(* The rbtree back end, driven through the generic layer, returns for every
   operation sequence exactly what the reference set of integers returns. *)
Theorem rb_refines_set : forall g ops,
  Forall (op_pre g) ops -> run0 RB g ops = run0 FSet g ops.
Proof. exact (run0_sim RB inv rb_mem RB_ok). Qed.
Print Assumptions rb_refines_set.

(* Same for the bit array, for every alignment of the array in memory. *)
Theorem ba_refines_set : forall al g ops,
  Forall (op_pre g) ops -> run0 (BA al) g ops = run0 FSet g ops.
Proof. exact (fun al => run0_sim (BA al) (fun _ => True) tb (BA_ok al)). Qed.
Print Assumptions ba_refines_set.

Theorem backends_agree : forall al g ops,
  Forall (op_pre g) ops -> run0 RB g ops = run0 (BA al) g ops.
Proof. exact (fun al g ops F => eq_trans (rb_refines_set g ops F) (eq_sym (ba_refines_set al g ops F))). Qed.
Print Assumptions backends_agree.

Theorem ba_align_irrelevant : forall al al' g ops,
  Forall (op_pre g) ops -> run0 (BA al) g ops = run0 (BA al') g ops.
Proof. exact (fun al al' g ops F => eq_trans (ba_refines_set al g ops F) (eq_sym (ba_refines_set al' g ops F))). Qed.
Print Assumptions ba_align_irrelevant.

(* Sequences with resizes in between (the geometry changes, the bits of the common range are kept,
   everything beyond the old or new end is clear): both back ends still return what the reference returns. *)
Theorem rb_refines_set_across_resizes : forall g ops,
  seg_pre g ops -> run_seg0 RB g ops = run_seg0 FSet g ops.
Proof. exact (run_seg0_sim RB inv rb_mem RB_ok). Qed.
Print Assumptions rb_refines_set_across_resizes.

Theorem ba_refines_set_across_resizes : forall al g ops,
  seg_pre g ops -> run_seg0 (BA al) g ops = run_seg0 FSet g ops.
Proof. exact (fun al => run_seg0_sim (BA al) (fun _ => True) tb (BA_ok al)). Qed.
Print Assumptions ba_refines_set_across_resizes.

Theorem resize_keeps_exactly_the_common_range : forall g ne (st : gstate FSet) j,
  fst (resize_state FSet g ne st) j = (j <? N.min (g_end g) ne + 1 - g_start g) && fst st j.
Proof. exact resize_fset_lemma. Qed.
Print Assumptions resize_keeps_exactly_the_common_range.

(* Every reachable rbtree state keeps its extents sorted, disjoint, non-adjacent
   and non-empty, with unique node identities and a coherent read cursor. *)
Theorem rb_invariant_step : forall st a n,
  inv st ->
  inv (fst (rb_insert_extent st a n)) /\ inv (fst (rb_remove_extent st a n)) /\ inv (fst (rb_test_bit st a)).
Proof. exact rb_inv_step. Qed.
Print Assumptions rb_invariant_step.

(* What the reference answers for find-first means: the least position. *)
Theorem find_first_is_least : forall (m : fset) w n a p,
  f_scan m w a n = Some p ->
  a <= p < a + N.of_nat n /\ m p = w /\ forall x, a <= x < p -> m x <> w.
Proof. exact f_scan_some. Qed.
Print Assumptions find_first_is_least.

Theorem find_first_none : forall (m : fset) w n a,
  f_scan m w a n = None -> forall x, a <= x < a + N.of_nat n -> m x <> w.
Proof. exact f_scan_none_inv. Qed.
Print Assumptions find_first_none.

(* Non-vacuity: a concrete sequence meeting the hypotheses, with its result. *)
Definition ex_g := mkGeom 1 40 47 0.
Definition ex_ops := [MarkRange 5 5; Mark 10; SetRange 9 16 (repeat true 4 ++ repeat false 4 ++ repeat true 4 ++ repeat false 4);
                      Unmark 4; Test 10; FindZero 9 40; FindSet 13 40; TestRange 13 4; GetRange 1 12; Snapshot; Mark 40; Compare].
Example ex_pre : Forall (op_pre ex_g) ex_ops.
Proof. repeat constructor; vm_compute; try reflexivity; intro; discriminate. Qed.
Example ex_run : run0 RB ex_g ex_ops =
  [RVoid; RInt 0; RVoid; RInt 0; RInt 1; RPos 13; RPos 17; RInt 1;
   RBits [false; false; false; false; true; true; true; true; true; true; true; true]; RVoid; RInt 0; RErr NEQ].
Proof. vm_compute. reflexivity. Qed.

(* C07 - mke2fs produces a consistent filesystem for every accepted configuration:
   the proved part is the geometry ext2fs_initialize computes *)
From E2V Require Import Layout.Layout Resize.ResizeGeom Geometry.InitGeom Geometry.InitGeomProofs.
Local Open Scope N_scope.

(* every geometry ext2fs_initialize accepts: the groups tile the device, the inode count is
   inodes-per-group x groups and fits 32 bits and covers the reserved inodes, inodes per group
   is a multiple of 8, the inode table has exactly the blocks it needs, per-group metadata fits
   into a group, the last group is full or large enough for its metadata plus 50 blocks *)
Theorem init_geometry_ok : forall p g, p_rsv p <= p_bs p / 4 -> init_geom p = IOk g -> init_good p g.
Proof. exact init_geom_good_lemma. Qed.
Print Assumptions init_geometry_ok.

Theorem ipg_round_fills_table : forall bs isz ipg k, 0 < isz -> bs = k * isz -> k mod 8 = 0 -> 0 < k -> 0 < ipg ->
  let '(b, itb) := ipg_round bs isz ipg in ipg <= b /\ b * isz = itb * bs.
Proof. exact ipg_round_fills_lemma. Qed.
Print Assumptions ipg_round_fills_table.

(* non-vacuity: mke2fs -t ext4 -b 1024 on 16M (inode ratio 4096 -> 4096 inodes requested) *)
Example init_example :
  init_geom (mkIP 16384 1024 256 4096 0 1 11 true false 0 0 true false true 0) =
  IOk (mkIG 16384 8192 2 1 2048 512 4096 127 false true).
Proof. vm_compute. reflexivity. Qed.

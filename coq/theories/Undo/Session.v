(* C12: the block-size field of an undo file header over a chain of recording sessions (lib/ext2fs/undo_io.c:
   undo_setup_tdb chooses it at the first write, undo_close writes the header, try_reopen_undo_file refuses a
   header whose block size is outside [E2UNDO_MIN_BLOCK_SIZE, E2UNDO_MAX_BLOCK_SIZE]). *)
From Coq Require Export NArith List Bool Lia.
Export ListNotations.
Local Open Scope N_scope.

Definition MINB : N := 1024.
Definition MAXB : N := 1048576.

(* None: the undo file does not exist yet / is empty.  A session is described by whether it wrote anything. *)
Definition open_ok (hdr : option N) : bool :=
  match hdr with None => true | Some b => (MINB <=? b) && (b <=? MAXB) end.

(* header left by a session that opened successfully; T = the undo block size this session would choose *)
Definition close_old (T : N) (hdr : option N) (wrote : bool) : option N :=
  match hdr with
  | Some b => Some b                                  (* appending: the size of the file is kept *)
  | None => Some (if wrote then T else 0)             (* the size was chosen only by a write *)
  end.
Definition close_new (T : N) (hdr : option N) (wrote : bool) : option N :=
  match hdr with Some b => Some b | None => Some T end.

(* a chain of sessions; None = some session could not open the file the previous one left *)
Fixpoint chain (close : N -> option N -> bool -> option N) (T : N) (ss : list bool) (hdr : option N) : option (option N) :=
  match ss with
  | [] => Some hdr
  | w :: r => if open_ok hdr then chain close T r (close T hdr w) else None
  end.

From E2V Require Import Undo.Session.
Local Open Scope N_scope.

Lemma chain_new_ok : forall T ss hdr, MINB <= T -> T <= MAXB -> open_ok hdr = true ->
  exists h, chain close_new T ss hdr = Some h /\ open_ok h = true.
Proof.
  intros T ss. induction ss as [|w r IH]; intros hdr Hlo Hhi Hok.
  - exists hdr. split; [reflexivity|assumption].
  - cbn [chain]. rewrite Hok. apply IH; try assumption.
    destruct hdr as [b|]; cbn [close_new]; [exact Hok|].
    cbn [open_ok]. apply andb_true_intro. split; apply N.leb_le; assumption.
Qed.

Lemma chain_old_refuted : chain close_old 1024 [false; true] None = None.
Proof. vm_compute. reflexivity. Qed.

(* The undo recorder + e2undo replay restore the original device contents,
   for every history of writes and any number of appending sessions, when the
   channel block size divides the undo block size. *)
From E2V Require Import IoCache.IoModel IoCache.IoProofs Undo.UndoModel.
From Coq Require Import ZArith ZifyN ZifyNat ZifyBool.
Local Open Scope N_scope.

Section UndoProofs.
  Variables B T off : N.
  Hypothesis HB : 0 < B.
  Hypothesis HT : 0 < T.
  Hypothesis Hdiv : T mod B = 0.
  Variable d0 : disk.
  Definition q := off / T.
  Definition r := off mod T.

  Lemma off_qr : off = q * T + r.
  Proof. unfold q, r. pose proof (N.div_mod off T ltac:(lia)). lia. Qed.
  Lemma r_lt : r < T.
  Proof. unfold r. apply N.mod_lt. lia. Qed.

  Definition kpos (k : key) := k_fsblk k * B.
  Definition klen (k : key) := N.of_nat (length (k_data k)).
  Definition kcov (k : key) (x : N) := kpos k <= x < kpos k + klen k.   (* fs byte x *)

  Definition key_ok (k : key) : Prop :=
    0 < klen k /\ klen k mod T = 0 /\ kpos k mod T = 0 /\
    k_data k = rd_bytes d0 (kpos k + off) (length (k_data k)).

  Record J (s : ust) : Prop := {
    j_keys : forall k, In k (u_keys s) -> key_ok k;
    j_dsk : forall o, (o < off \/ memN ((o - off) / T + q) (u_written s) = false) -> u_dsk s o = d0 o;
    j_cov : forall c x, memN c (u_written s) = true -> x / T + q = c -> exists k, In k (u_keys s) /\ kcov k x;
  }.

  Lemma memN_true x l : memN x l = true <-> In x l.
  Proof.
    unfold memN. rewrite existsb_exists. split.
    - intros (y & H1 & H2). apply N.eqb_eq in H2. subst. auto.
    - intros H. exists x. split; auto. apply N.eqb_refl.
  Qed.

  Lemma memN_cons x y l : memN x (y :: l) = (x =? y) || memN x l.
  Proof. reflexivity. Qed.

  Lemma J_init : J (uinit d0).
  Proof. constructor; cbn; auto; try tauto. intros; discriminate. Qed.

  Lemma TB : (T / B) * B = T.
  Proof. pose proof (N.div_mod T B ltac:(lia)). lia. Qed.

  Lemma cell_blk c : (c * T) / B * B = c * T.
  Proof.
    rewrite <- TB at 1. replace (c * (T / B * B)) with ((c * (T / B)) * B) by lia.
    rewrite N.div_mul by lia. rewrite <- TB at 2. lia.
  Qed.

  (* ---- one cell ---- *)
  Lemma save_cell_ok s c : J s -> q <= c ->
    J (save_cell B T off s c) /\ u_dsk (save_cell B T off s c) = u_dsk s /\
    (forall x, memN x (u_written s) = true -> memN x (u_written (save_cell B T off s c)) = true) /\
    memN c (u_written (save_cell B T off s c)) = true.
  Proof.
    intros Js Hq. unfold save_cell. destruct (memN c (u_written s)) eqn:M; [auto|].
    fold r. set (bb := (c * T + r - off) / B). set (data := rd_bytes (u_dsk s) (bb * B + off) (N.to_nat T)).
    set (fc := c - q).
    assert (Hbb : bb * B = fc * T).
    { unfold bb. replace (c * T + r - off) with (fc * T) by (unfold fc; pose proof off_qr; nia). apply cell_blk. }
    assert (Hdata : data = rd_bytes d0 (fc * T + off) (N.to_nat T)).
    { unfold data. rewrite Hbb. apply rd_bytes_ext. intros o Ho. apply (j_dsk _ Js). right.
      replace ((o - off) / T + q) with c; auto.
      assert ((o - off) / T = fc) by (symmetry; apply N.div_unique with (o - off - fc * T); lia). unfold fc in *. lia. }
    assert (Ldata : length data = N.to_nat T) by (unfold data; apply rd_bytes_length).
    (* the new or extended key list *)
    match goal with |- context [let '(keys', kib') := ?X in _] => set (kk := X) end.
    assert (KK : forall k, In k (fst kk) -> key_ok k).
    { unfold kk. destruct (rev (u_keys s)) as [|k r] eqn:R.
      - cbn [fst]. intros k Hk. apply in_app_or in Hk. destruct Hk as [Hk|[<-|[]]]; [apply (j_keys _ Js); auto|].
        unfold key_ok, kpos, klen. cbn [k_fsblk k_data]. rewrite Ldata, N2Nat.id, Hbb.
        split; [lia|split; [apply N.mod_same; lia|split; [apply N.mod_mul; lia|rewrite Hdata; reflexivity]]].
      - assert (Ek : u_keys s = rev r ++ [k]).
        { rewrite <- (rev_involutive (u_keys s)), R. reflexivity. }
        assert (Kok : key_ok k) by (apply (j_keys _ Js); rewrite Ek; apply in_or_app; right; left; reflexivity).
        match goal with |- context [if ?X then _ else _] => destruct X eqn:EX end.
        + cbn [fst]. intros k' Hk'. apply in_app_or in Hk'. destruct Hk' as [Hk'|[<-|[]]].
          * apply (j_keys _ Js). rewrite Ek. apply in_or_app. left. exact Hk'.
          * destruct Kok as (K1 & K2 & K3 & K4). unfold klen, kpos in *.
            apply andb_true_iff in EX. destruct EX as [EX _]. apply andb_true_iff in EX. destruct EX as [_ EX].
            apply N.eqb_eq in EX.
            assert (Hadj : k_fsblk k * B + N.of_nat (length (k_data k)) = bb * B).
            { assert (Hm : N.of_nat (length (k_data k)) mod B = 0).
              { pose proof (N.div_mod (N.of_nat (length (k_data k))) T ltac:(lia)) as E1. rewrite K2 in E1.
                rewrite E1, N.add_0_r. rewrite <- TB. replace (T / B * B * (N.of_nat (length (k_data k)) / (T / B * B)))
                  with ((T / B * (N.of_nat (length (k_data k)) / (T / B * B))) * B) by lia.
                apply N.mod_mul. lia. }
              pose proof (N.div_mod (N.of_nat (length (k_data k))) B ltac:(lia)) as E2. rewrite Hm in E2.
              set (q := N.of_nat (length (k_data k)) / B) in *.
              assert ((k_fsblk k * B + B - 1 + N.of_nat (length (k_data k))) / B = k_fsblk k + q).
              { symmetry. apply N.div_unique with (B - 1); lia. }
              lia. }
            unfold key_ok, kpos, klen. cbn [k_fsblk k_data]. rewrite app_length, Nat2N.inj_add, Ldata, N2Nat.id.
            split; [lia|split; [|split; [exact K3|]]].
            -- rewrite <- N.add_mod_idemp_l, K2 by lia. rewrite N.add_0_l. apply N.mod_same. lia.
            -- rewrite rd_bytes_app. f_equal; auto.
               rewrite Hdata. f_equal. lia.
        + cbn [fst]. intros k' Hk'. apply in_app_or in Hk'. destruct Hk' as [Hk'|[<-|[]]]; [apply (j_keys _ Js); auto|].
          unfold key_ok, kpos, klen. cbn [k_fsblk k_data]. rewrite Ldata, N2Nat.id, Hbb.
          split; [lia|split; [apply N.mod_same; lia|split; [apply N.mod_mul; lia|rewrite Hdata; reflexivity]]]. }
    assert (KC : forall x, x / T + q = c -> exists k, In k (fst kk) /\ kcov k x).
    { intros x Hx. assert (Hxr : fc * T <= x < fc * T + T).
      { pose proof (N.div_mod x T ltac:(lia)). pose proof (N.mod_lt x T ltac:(lia)). unfold fc. nia. }
      unfold kk. destruct (rev (u_keys s)) as [|k r] eqn:R.
      - cbn [fst]. eexists. split; [apply in_or_app; right; left; reflexivity|].
        unfold kcov, kpos, klen. cbn [k_fsblk k_data]. rewrite Ldata, N2Nat.id. lia.
      - match goal with |- context [if ?X then _ else _] => destruct X eqn:EX end.
        + cbn [fst]. eexists. split; [apply in_or_app; right; left; reflexivity|].
          apply andb_true_iff in EX. destruct EX as [EX _]. apply andb_true_iff in EX. destruct EX as [_ EX].
          apply N.eqb_eq in EX.
          assert (Ek : u_keys s = rev r ++ [k]) by (rewrite <- (rev_involutive (u_keys s)), R; reflexivity).
          assert (Kok : key_ok k) by (apply (j_keys _ Js); rewrite Ek; apply in_or_app; right; left; reflexivity).
          destruct Kok as (K1 & K2 & K3 & K4). unfold klen, kpos in *.
          assert (Hm : N.of_nat (length (k_data k)) mod B = 0).
          { pose proof (N.div_mod (N.of_nat (length (k_data k))) T ltac:(lia)) as E1. rewrite K2 in E1.
            rewrite E1, N.add_0_r. rewrite <- TB. replace (T / B * B * (N.of_nat (length (k_data k)) / (T / B * B)))
              with ((T / B * (N.of_nat (length (k_data k)) / (T / B * B))) * B) by lia.
            apply N.mod_mul. lia. }
          pose proof (N.div_mod (N.of_nat (length (k_data k))) B ltac:(lia)) as E2. rewrite Hm in E2.
          set (q := N.of_nat (length (k_data k)) / B) in *.
          assert ((k_fsblk k * B + B - 1 + N.of_nat (length (k_data k))) / B = k_fsblk k + q).
          { symmetry. apply N.div_unique with (B - 1); lia. }
          unfold kcov, kpos, klen. cbn [k_fsblk k_data]. rewrite app_length, Nat2N.inj_add, Ldata, N2Nat.id. lia.
        + cbn [fst]. eexists. split; [apply in_or_app; right; left; reflexivity|].
          unfold kcov, kpos, klen. cbn [k_fsblk k_data]. rewrite Ldata, N2Nat.id. lia. }
    assert (KI : forall k, In k (u_keys s) -> forall x, kcov k x -> exists k', In k' (fst kk) /\ kcov k' x).
    { intros k Hk x Hx. unfold kk. destruct (rev (u_keys s)) as [|kl r] eqn:R.
      - cbn [fst]. exists k. split; auto. apply in_or_app; auto.
      - assert (Ek : u_keys s = rev r ++ [kl]) by (rewrite <- (rev_involutive (u_keys s)), R; reflexivity).
        match goal with |- context [if ?X then _ else _] => destruct X eqn:EX end.
        + cbn [fst]. rewrite Ek in Hk. apply in_app_or in Hk. destruct Hk as [Hk|[<-|[]]].
          * exists k. split; auto. apply in_or_app; auto.
          * eexists. split; [apply in_or_app; right; left; reflexivity|].
            unfold kcov, kpos, klen in *. cbn [k_fsblk k_data]. rewrite app_length, Nat2N.inj_add. lia.
        + cbn [fst]. exists k. split; auto. apply in_or_app; auto. }
    destruct kk as [keys' kib'] eqn:Ekk. cbn [fst] in *.
    split; [|split3; cbn [u_dsk u_written]; auto].
    - constructor; cbn [u_keys u_dsk u_written].
      + exact KK.
      + intros o Ho. apply (j_dsk _ Js). destruct Ho as [Ho|Ho]; auto. right.
        rewrite memN_cons in Ho. apply orb_false_elim in Ho. tauto.
      + intros c' x Hc Hx. rewrite memN_cons in Hc. apply orb_true_iff in Hc. destruct Hc as [Hc|Hc].
        * apply N.eqb_eq in Hc. subst c'. apply KC; auto.
        * destruct (j_cov _ Js c' x Hc Hx) as (k & K1 & K2). eapply KI; eauto.
    - intros x Hx. rewrite memN_cons, Hx. apply orb_true_r.
    - rewrite memN_cons, N.eqb_refl. reflexivity.
  Qed.

  Lemma save_cells_ok : forall n s c, J s -> q <= c ->
    let s' := save_cells B T off s c n in
    J s' /\ u_dsk s' = u_dsk s /\
    (forall x, memN x (u_written s) = true -> memN x (u_written s') = true) /\
    (forall x, c <= x < c + N.of_nat n -> memN x (u_written s') = true).
  Proof.
    induction n; intros s c Js Hq; cbn [save_cells].
    - split; [exact Js|]. split; [reflexivity|]. split; [auto|]. intros x Hx. lia.
    - destruct (save_cell_ok s c Js Hq) as (A1 & A2 & A3 & A4).
      destruct (IHn (save_cell B T off s c) (c + 1) A1 ltac:(lia)) as (B1 & B2 & B3 & B4). cbv zeta in *.
      split; [exact B1|]. split; [congruence|]. split; [auto|].
      intros x Hx. destruct (N.eq_dec x c) as [->|Hne]; [apply B3; exact A4|apply B4; lia].
  Qed.

  Lemma save_ok s block size : J s ->
    let s' := save B T off s block size in
    J s' /\ u_dsk s' = u_dsk s /\
    (forall x, block * B <= x < block * B + size -> memN (x / T + q) (u_written s') = true).
  Proof.
    intros Js. unfold save. fold r.
    set (offset := block * B + off).
    pose proof off_qr as Hoff. pose proof r_lt as Hr.
    pose proof (N.div_mod offset T ltac:(lia)) as Ed. pose proof (N.mod_lt offset T ltac:(lia)) as Em.
    set (c0 := offset / T) in *. set (m := offset mod T) in *.
    assert (Hc0q : q <= c0) by (unfold offset in *; nia).
    set (c0' := if (0 <? c0) && (m <? r) then c0 - 1 else c0).
    assert (Hc0' : q <= c0' /\ c0' * T + r <= offset).
    { unfold c0'. destruct (N.ltb_spec 0 c0); destruct (N.ltb_spec m r); cbn [andb]; unfold offset in *; nia. }
    destruct Hc0' as [Hq0 Hlow].
    destruct (save_cells_ok (N.to_nat ((offset + size - 1) / T + 1 - c0')) s c0' Js Hq0) as (A1 & A2 & A3 & A4). cbv zeta in *.
    split; [exact A1|]. split; [exact A2|].
    intros x Hx. apply A4.
    pose proof (N.div_mod x T ltac:(lia)) as Ex. pose proof (N.mod_lt x T ltac:(lia)) as Emx.
    pose proof (N.div_mod (offset + size - 1) T ltac:(lia)) as E1. pose proof (N.mod_lt (offset + size - 1) T ltac:(lia)) as Em1.
    set (c1 := (offset + size - 1) / T) in *. set (fx := x / T) in *.
    assert (L1 : c0' < fx + 1 + q).
    { apply (N.mul_lt_mono_pos_r T); [lia|].
      replace ((fx + 1 + q) * T) with (fx * T + T + q * T) by lia. unfold offset in *. lia. }
    assert (L2 : fx + q < c1 + 1).
    { apply (N.mul_lt_mono_pos_r T); [lia|].
      replace ((fx + q) * T) with (fx * T + q * T) by lia.
      replace ((c1 + 1) * T) with (c1 * T + T) by lia. unfold offset in *. lia. }
    lia.
  Qed.

  Lemma real_write_ok s fsoff data :
    J s -> (forall x, fsoff <= x < fsoff + N.of_nat (length data) -> memN (x / T + q) (u_written s) = true) ->
    J (real_write off s fsoff data).
  Proof.
    intros Js Hw. unfold real_write. constructor; cbn [u_keys u_dsk u_written].
    - apply (j_keys _ Js).
    - intros o Ho. rewrite wr_bytes_spec.
      destruct (N.leb_spec (fsoff + off) o); destruct (N.ltb_spec o (fsoff + off + N.of_nat (length data))); cbn [andb];
        try (apply (j_dsk _ Js); auto).
      exfalso. destruct Ho as [Ho|Ho]; [lia|].
      rewrite (Hw (o - off)) in Ho by lia. discriminate.
    - apply (j_cov _ Js).
  Qed.

  (* ---- reopen ---- *)
  Lemma cells_of_In : forall n c x, In x (cells_of c n) <-> c <= x < c + N.of_nat n.
  Proof.
    induction n; intros c x; cbn [cells_of].
    - simpl. lia.
    - simpl In. rewrite IHn. lia.
  Qed.

  Lemma key_cell k : kpos k mod T = 0 -> (kpos k + off) / T = kpos k / T + q.
  Proof.
    intros A. pose proof (N.div_mod (kpos k) T ltac:(lia)) as E. rewrite A in E.
    pose proof off_qr. pose proof r_lt.
    symmetry. apply N.div_unique with r; [assumption|]. lia.
  Qed.

  Lemma reopen_ok s : J s -> J (ustep B T off s UReopen).
  Proof.
    intros Js. cbn [ustep].
    assert (RW : forall c, memN c (reopen_written B T off (u_keys s)) = true <->
                           exists k, In k (u_keys s) /\ kpos k / T + q <= c < kpos k / T + q + klen k / T).
    { intros c. rewrite memN_true. unfold reopen_written. rewrite in_flat_map. split.
      - intros (k & K1 & K2). exists k. split; auto. apply cells_of_In in K2.
        destruct (j_keys _ Js k K1) as (Q1 & Q2 & Q3 & Q4).
        fold (kpos k) in K2. rewrite (key_cell k Q3) in K2. unfold kpos, klen in *.
        assert (E : (N.of_nat (length (k_data k)) + T - 1) / T = N.of_nat (length (k_data k)) / T).
        { pose proof (N.div_mod (N.of_nat (length (k_data k))) T ltac:(lia)) as E1. rewrite Q2 in E1.
          symmetry. apply N.div_unique with (T - 1); lia. }
        rewrite N2Nat.id, E in K2. exact K2.
      - intros (k & K1 & K2). exists k. split; auto. apply cells_of_In.
        destruct (j_keys _ Js k K1) as (Q1 & Q2 & Q3 & Q4).
        fold (kpos k). rewrite (key_cell k Q3). unfold kpos, klen in *.
        assert (E : (N.of_nat (length (k_data k)) + T - 1) / T = N.of_nat (length (k_data k)) / T).
        { pose proof (N.div_mod (N.of_nat (length (k_data k))) T ltac:(lia)) as E1. rewrite Q2 in E1.
          symmetry. apply N.div_unique with (T - 1); lia. }
        rewrite N2Nat.id, E. exact K2. }
    assert (COV : forall k x, key_ok k -> (kcov k x <-> kpos k / T <= x / T < kpos k / T + klen k / T)).
    { intros k x (Q1 & Q2 & Q3 & Q4).
      pose proof (N.div_mod (kpos k) T ltac:(lia)) as E1. rewrite Q3 in E1.
      pose proof (N.div_mod (klen k) T ltac:(lia)) as E2. rewrite Q2 in E2.
      pose proof (N.div_mod x T ltac:(lia)) as E3. pose proof (N.mod_lt x T ltac:(lia)).
      unfold kcov. set (a := kpos k / T) in *. set (l := klen k / T) in *. set (qq := x / T) in *. nia. }
    constructor; cbn [u_keys u_dsk u_written].
    - apply (j_keys _ Js).
    - intros o Ho. apply (j_dsk _ Js). destruct Ho as [Ho|Ho]; auto. right.
      destruct (memN ((o - off) / T + q) (u_written s)) eqn:M; auto.
      destruct (j_cov _ Js _ (o - off) M eq_refl) as (k & K1 & K2).
      assert (memN ((o - off) / T + q) (reopen_written B T off (u_keys s)) = true); [|congruence].
      apply RW. exists k. split; auto.
      pose proof (proj1 (COV k (o - off) (j_keys _ Js k K1)) K2). lia.
    - intros c x Hc Hx. apply RW in Hc. destruct Hc as (k & K1 & K2). exists k. split; auto.
      apply COV; [apply (j_keys _ Js); auto|]. lia.
  Qed.

  Lemma ustep_ok s o : J s -> J (ustep B T off s o).
  Proof.
    intros Js. destruct o.
    - cbn [ustep]. destruct (save_ok s blk (cnt * B) Js) as (A1 & A2 & A3). cbv zeta in *.
      apply real_write_ok; auto. intros x Hx. apply A3.
      rewrite firstn_length in Hx. lia.
    - cbn [ustep]. destruct (save_ok s blk (N.of_nat (length data)) Js) as (A1 & A2 & A3). cbv zeta in *.
      apply real_write_ok; auto.
    - cbn [ustep].
      destruct (save_ok s (o / B) ((N.of_nat (length data) + o mod B + B - 1) / B * B) Js) as (A1 & A2 & A3). cbv zeta in *.
      apply real_write_ok; auto. intros x Hx. apply A3.
      pose proof (N.div_mod o B ltac:(lia)). pose proof (N.mod_lt o B ltac:(lia)).
      pose proof (N.div_mod (N.of_nat (length data) + o mod B + B - 1) B ltac:(lia)).
      pose proof (N.mod_lt (N.of_nat (length data) + o mod B + B - 1) B ltac:(lia)).
      set (q := (N.of_nat (length data) + o mod B + B - 1) / B) in *. nia.
    - cbn [ustep]. destruct (save_ok s blk (cnt * B) Js) as (A1 & A2 & A3). cbv zeta in *.
      apply real_write_ok; auto. intros x Hx. apply A3. rewrite repeat_length in Hx. lia.
    - apply reopen_ok; auto.
  Qed.

  Lemma urun_ok : forall ops s, J s -> J (urun B T off s ops).
  Proof.
    induction ops as [|o rr IH]; intros s Js; cbn; auto.
    apply IH; auto. apply ustep_ok; auto.
  Qed.

  (* ---- replay ---- *)
  Lemma In_ins_key k x : forall l, In x (ins_key k l) <-> x = k \/ In x l.
  Proof.
    induction l as [|y r IH]; cbn [ins_key].
    - simpl. intuition.
    - destruct (k_fsblk k <? k_fsblk y); simpl; [intuition|]. rewrite IH. intuition.
  Qed.

  Lemma In_sort_keys x l : In x (sort_keys l) <-> In x l.
  Proof.
    unfold sort_keys.
    assert (G : forall l acc, In x (fold_left (fun acc k => ins_key k acc) l acc) <-> In x l \/ In x acc).
    { induction l0 as [|y r IH]; intros acc; cbn [fold_left].
      - simpl. intuition.
      - rewrite IH, In_ins_key. simpl. intuition. }
    rewrite G. simpl. intuition.
  Qed.

  Lemma replay_spec : forall keys d o,
    (forall k, In k keys -> key_ok k) ->
    replay_keys B off keys d o =
    if existsb (fun k => (kpos k + off <=? o) && (o <? kpos k + off + klen k)) keys then d0 o else d o.
  Proof.
    induction keys as [|k r IH]; intros d o OK; cbn [replay_keys fold_left existsb]; [reflexivity|].
    change (fold_left (fun d k => wr_bytes d (k_fsblk k * B + off) (k_data k)) r
                      (wr_bytes d (k_fsblk k * B + off) (k_data k)))
      with (replay_keys B off r (wr_bytes d (k_fsblk k * B + off) (k_data k))).
    rewrite IH by (intros; apply OK; simpl; auto).
    destruct (existsb _ r); [rewrite orb_true_r; reflexivity|]. rewrite orb_false_r.
    rewrite wr_bytes_spec. unfold kpos, klen.
    destruct ((k_fsblk k * B + off <=? o) && (o <? k_fsblk k * B + off + N.of_nat (length (k_data k)))) eqn:C; [|reflexivity].
    destruct (OK k (or_introl eq_refl)) as (_ & _ & _ & Q4). rewrite Q4.
    apply andb_true_iff in C. destruct C as [C1 C2]. apply N.leb_le in C1. apply N.ltb_lt in C2.
    rewrite nth_rd_bytes by lia. unfold kpos. f_equal. lia.
  Qed.

  Theorem e2undo_restores s : J s -> forall o, e2undo B off s o = d0 o.
  Proof.
    intros Js o. unfold e2undo. rewrite replay_spec.
    - destruct (existsb _ (sort_keys (u_keys s))) eqn:E; [reflexivity|].
      apply (j_dsk _ Js). destruct (N.lt_ge_cases o off); auto. right.
      destruct (memN ((o - off) / T + q) (u_written s)) eqn:M; auto.
      destruct (j_cov _ Js _ (o - off) M eq_refl) as (k & K1 & K2).
      assert (existsb (fun k0 => (kpos k0 + off <=? o) && (o <? kpos k0 + off + klen k0)) (sort_keys (u_keys s)) = true);
        [|congruence].
      apply existsb_exists. exists k. split; [apply In_sort_keys; auto|].
      unfold kcov in K2. apply andb_true_iff. split; [apply N.leb_le|apply N.ltb_lt]; lia.
    - intros k Hk. apply (j_keys _ Js). apply In_sort_keys. exact Hk.
  Qed.

  (* e2undo's sort order does not matter: any list with the same keys replays alike *)
  Theorem replay_order_irrelevant s keys' : J s ->
    (forall k, In k keys' <-> In k (u_keys s)) ->
    forall o, replay_keys B off keys' (u_dsk s) o = d0 o.
  Proof.
    intros Js P o.
    rewrite replay_spec by (intros k Hk; apply (j_keys _ Js); apply P; auto).
    destruct (existsb _ keys') eqn:E; [reflexivity|].
    apply (j_dsk _ Js). destruct (N.lt_ge_cases o off); auto. right.
    destruct (memN ((o - off) / T + q) (u_written s)) eqn:M; auto.
    destruct (j_cov _ Js _ (o - off) M eq_refl) as (k & K1 & K2).
    assert (existsb (fun k0 => (kpos k0 + off <=? o) && (o <? kpos k0 + off + klen k0)) keys' = true); [|congruence].
    apply existsb_exists. exists k. split; [apply P; auto|].
    unfold kcov in K2. apply andb_true_iff. split; [apply N.leb_le|apply N.ltb_lt]; lia.
  Qed.
End UndoProofs.

Theorem undo_restores_all : forall B T off d0 ops,
  0 < B -> 0 < T -> T mod B = 0 ->
  forall o, e2undo B off (urun B T off (uinit d0) ops) o = d0 o.
Proof.
  intros B T off d0 ops HB HT HD. apply (e2undo_restores B T off HB HT HD d0).
  apply urun_ok; auto. apply J_init.
Qed.

Theorem replay_order_irrelevant_all : forall B T off d0 ops keys',
  0 < B -> 0 < T -> T mod B = 0 ->
  let s := urun B T off (uinit d0) ops in
  (forall k, In k keys' <-> In k (u_keys s)) ->
  forall o, replay_keys B off keys' (u_dsk s) o = d0 o.
Proof.
  intros B T off d0 ops keys' HB HT HD s P. apply (replay_order_irrelevant B T off HB HT HD d0); auto.
  apply urun_ok; auto. apply J_init.
Qed.

(* Model of the undo recorder (lib/ext2fs/undo_io.c, repaired code) and of
   e2undo's replay (misc/e2undo.c).  The undo grid is device-relative; the bytes
   saved for undo block c are the T bytes starting (off mod T) into it.
   Parameters: B = channel block size, T = undo block size (tdb_data_size),
   off = filesystem offset inside the device.  The device is a byte function
   in device coordinates; accesses stay inside the original length (short
   reads at EOF are left to the tool-level part of the check). *)
From E2V Require Export IoCache.IoModel.
Local Open Scope N_scope.

Record key := mkKey { k_fsblk : N; k_data : bytes }.

Record ust := mkU {
  u_written : list N;     (* written_block_map: undo-grid cells already saved *)
  u_keys : list key;      (* keys in file order; the last one may be extended *)
  u_kib : N;              (* keys_in_block: 0 = the next key starts a fresh key block *)
  u_dsk : disk;
}.

Section Undo.
  Variables B T off : N.
  Definition E2UNDO_MAX_EXTENT_BLOCKS := 512.
  Definition keys_per_block := T / 16 - 1.

  Definition memN (x : N) (l : list N) := existsb (N.eqb x) l.

  (* one undo-grid cell: the body of the while loop of undo_write_tdb *)
  Definition save_cell (s : ust) (c : N) : ust :=
    if memN c (u_written s) then s else
    (* offset = block_num * tdb_data_size + (data->offset % tdb_data_size);
       backing_blk_num = (offset - data->offset) / channel->block_size *)
    let bb := (c * T + off mod T - off) / B in
    let data := rd_bytes (u_dsk s) (bb * B + off) (N.to_nat T) in
    let extend :=
        match rev (u_keys s) with
        | k :: _ =>
          negb (u_kib s =? 0) &&
          ((k_fsblk k * B + B - 1 + N.of_nat (length (k_data k))) / B =? bb) &&
          (N.of_nat (length (k_data k)) + T <? E2UNDO_MAX_EXTENT_BLOCKS * T)
        | [] => false
        end in
    let '(keys', kib') :=
        if extend then
          match rev (u_keys s) with
          | k :: r => (rev r ++ [mkKey (k_fsblk k) (k_data k ++ data)], u_kib s)
          | [] => (u_keys s, u_kib s)
          end
        else (u_keys s ++ [mkKey bb data], u_kib s + 1) in
    (* write_undo_indexes: a full key block is closed *)
    let kib'' := if kib' =? keys_per_block then 0 else kib' in
    mkU (c :: u_written s) keys' kib'' (u_dsk s).

  Fixpoint save_cells (s : ust) (c : N) (n : nat) : ust :=
    match n with
    | O => s
    | S k => save_cells (save_cell s c) (c + 1) k
    end.

  (* undo_write_tdb(block, size in bytes) *)
  Definition save (s : ust) (block size : N) : ust :=
    let offset := block * B + off in                 (* device offset *)
    let c0 := offset / T in
    let c1 := (offset + size - 1) / T in
    (* a write that begins in the leading (off mod T) bytes of an undo block is
       covered by the record of the previous undo block (repaired code) *)
    let c0 := if (0 <? c0) && (offset mod T <? off mod T) then c0 - 1 else c0 in
    save_cells s c0 (N.to_nat (c1 + 1 - c0)).

  Definition real_write (s : ust) (fsoff : N) (data : bytes) : ust :=
    mkU (u_written s) (u_keys s) (u_kib s) (wr_bytes (u_dsk s) (fsoff + off) data).

  Inductive uop :=
  | UWr (blk cnt : N) (data : bytes)    (* count blocks; size rule: count*B (count = 1: B) *)
  | UWrB (blk : N) (data : bytes)       (* count < 0: length data bytes *)
  | UWrByte (o : N) (data : bytes)      (* io_channel_write_byte at fs offset o *)
  | UZero (blk cnt : N)
  | UReopen.                            (* close, open again appending to the same undo file *)

  (* try_reopen_undo_file: written map rebuilt from the keys *)
  Fixpoint cells_of (c : N) (n : nat) : list N :=
    match n with O => [] | S k => c :: cells_of (c + 1) k end.
  Definition reopen_written (keys : list key) : list N :=
    flat_map (fun k => cells_of ((k_fsblk k * B + off) / T)     (* cell of the key.  The model indexes the map by device cell c; the repaired code stores c - off / T (file system position) both when saving and when reopening: the same set up to that shift, every cell touched being >= off / T *)
                                (N.to_nat ((N.of_nat (length (k_data k)) + T - 1) / T))) keys.

  Definition ustep (s : ust) (o : uop) : ust :=
    match o with
    | UWr blk cnt data =>
      let d := firstn (N.to_nat (cnt * B)) data in
      real_write (save s blk (cnt * B)) (blk * B) d
    | UWrB blk data => real_write (save s blk (N.of_nat (length data))) (blk * B) data
    | UWrByte o data =>
      let blk_num := o / B in
      let count := (N.of_nat (length data) + o mod B + B - 1) / B in
      real_write (save s blk_num (count * B)) o data
    | UZero blk cnt =>
      real_write (save s blk (cnt * B)) (blk * B) (repeat 0 (N.to_nat (cnt * B)))
    | UReopen =>
      (* keys_in_block after reopen = number of keys in the last key block *)
      let nk := N.of_nat (length (u_keys s)) in
      let kib := if nk =? 0 then 0 else
                 let r := nk mod keys_per_block in if r =? 0 then keys_per_block else r in
      mkU (reopen_written (u_keys s)) (u_keys s) (if kib =? keys_per_block then 0 else kib) (u_dsk s)
    end.

  Definition urun (s : ust) (ops : list uop) : ust := fold_left ustep ops s.

  (* e2undo: keys sorted by fsblk (insertion sort, stable), then written back *)
  Fixpoint ins_key (k : key) (l : list key) : list key :=
    match l with
    | [] => [k]
    | x :: r => if k_fsblk k <? k_fsblk x then k :: l else x :: ins_key k r
    end.
  Definition sort_keys (l : list key) : list key := fold_left (fun acc k => ins_key k acc) l [].

  Definition replay_keys (keys : list key) (d : disk) : disk :=
    fold_left (fun d k => wr_bytes d (k_fsblk k * B + off) (k_data k)) keys d.

  Definition e2undo (s : ust) : disk := replay_keys (sort_keys (u_keys s)) (u_dsk s).

  Definition uinit (d : disk) : ust := mkU [] [] 0 d.
End Undo.

(* e2fsck/rehash.c copy_dir_entries: the sorted entries of a directory are
   packed into blocks of B = blocksize - csum_size bytes; each block's
   rec_lens must tile the block exactly, every entry is copied once, in order.
   An entry is represented by its name length (contents are copied verbatim). *)
From Coq Require Export List NArith Arith Bool Lia.
Export ListNotations.
Local Open Scope N_scope.

(* ext2fs_dir_rec_len(name_len, 0) = (name_len + 8 + 3) & ~3 *)
Definition dir_rec_len (name_len : N) : N := (name_len + 11) / 4 * 4.

(* a packed block: (name_len, rec_len) in order *)
Definition pblock := list (N * N).

Record pst := mkP {
  done : list pblock;        (* finished blocks, in order *)
  cur : list (N * N);        (* current block, newest entry first *)
  offset : N;
  left : N;
}.

Definition bump_last (c : list (N * N)) (extra : N) : list (N * N) :=
  match c with [] => [] | (n, r) :: t => (n, r + extra) :: t end.

Section Pack.
  Variable B : N.        (* blocksize - csum_size *)
  Variable slack : N.

  Definition close (s : pst) : pst :=
    mkP (done s ++ [rev (if 0 <? left s then bump_last (cur s) (left s) else cur s)]) [] 0 B.

  Definition place (s : pst) (name_len : N) : pst :=
    let r := dir_rec_len name_len in
    let s1 := if left s <? r then close s else s in
    let left1 := B - offset s1 in
    let cur1 := (name_len, r) :: cur s1 in
    let off2 := offset s1 + r in
    let left2 := left1 - r in
    if left2 <? slack
    then mkP (done s1) (bump_last cur1 left2) (off2 + left2) 0
    else mkP (done s1) cur1 off2 left2.

  Definition finish (s : pst) : list pblock :=
    done s ++ [rev (if 0 <? left s then bump_last (cur s) (left s) else cur s)].

  Definition pack (names : list N) : list pblock :=
    finish (fold_left place names (mkP [] [] 0 B)).
End Pack.

Definition sum_rec (b : list (N * N)) : N := fold_right (fun e acc => snd e + acc) 0 b.

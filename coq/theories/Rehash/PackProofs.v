From E2V Require Import Rehash.Pack.
Local Open Scope N_scope.

Lemma sum_rec_app a b : sum_rec (a ++ b) = sum_rec a + sum_rec b.
Proof. induction a as [|x a IH]; [reflexivity|]. change (snd x + sum_rec (a ++ b) = snd x + sum_rec a + sum_rec b). rewrite IH. lia. Qed.

Lemma sum_rec_rev a : sum_rec (rev a) = sum_rec a.
Proof.
  induction a as [|x a IH]; [reflexivity|]. cbn [rev]. rewrite sum_rec_app, IH.
  change (sum_rec a + (snd x + 0) = snd x + sum_rec a). lia.
Qed.

Lemma sum_bump c e : c <> [] -> sum_rec (bump_last c e) = sum_rec c + e.
Proof. destruct c as [|[n r] t]; [congruence|]. intros _. change (r + e + sum_rec t = r + sum_rec t + e). lia. Qed.

Lemma names_bump c e : map fst (bump_last c e) = map fst c.
Proof. destruct c as [|[n r] t]; reflexivity. Qed.

Lemma dir_rec_len_bounds n : n + 8 <= dir_rec_len n <= n + 11 /\ dir_rec_len n mod 4 = 0.
Proof.
  unfold dir_rec_len. pose proof (N.div_mod (n + 11) 4 ltac:(lia)) as H. pose proof (N.mod_lt (n + 11) 4 ltac:(lia)) as H0.
  split; [|apply N.mod_mul; lia].
  set (q := (n + 11) / 4) in *. set (m := (n + 11) mod 4) in *. clearbody q m. lia.
Qed.

Section Proofs.
  Variable B slack : N.
  Hypothesis HB : 268 <= B.          (* a 255-byte name fits: blocksize >= 1024 *)
  Hypothesis Hslack : 12 <= slack <= B.

  Definition fits (n : N) := 1 <= n <= 255.

  (* invariant of the packing loop *)
  Record inv (s : pst) : Prop := {
    i_done : forall b, In b (done s) -> sum_rec b = B;
    i_sum : sum_rec (cur s) = offset s;
    i_left : offset s + left s = B;
    i_nonempty : offset s <> 0 -> cur s <> [];
    i_zero : cur s = [] -> offset s = 0;
  }.

  Lemma inv_init : inv (mkP [] [] 0 B).
  Proof. constructor; cbn; auto; try tauto; try lia. Qed.

  Lemma close_inv s : inv s -> offset s <> 0 -> inv (close B s).
  Proof.
    intros I Ho. unfold close. constructor; cbn [done cur offset left]; auto; try lia; try tauto.
    intros b Hb. apply in_app_or in Hb. destruct Hb as [Hb|[<-|[]]]; [apply (i_done _ I); auto|].
    rewrite sum_rec_rev. destruct (N.ltb_spec 0 (left s)).
    - rewrite sum_bump by (apply (i_nonempty _ I); auto). rewrite (i_sum _ I). apply (i_left _ I).
    - rewrite (i_sum _ I). pose proof (i_left _ I). lia.
  Qed.

  Lemma place_inv s n : inv s -> fits n -> inv (place B slack s n).
  Proof.
    intros I Hn. unfold place.
    pose proof (dir_rec_len_bounds n) as [Hr _]. unfold fits in Hn.
    set (r := dir_rec_len n) in *.
    assert (I1 : inv (if left s <? r then close B s else s) /\
                 r <= B - offset (if left s <? r then close B s else s)).
    { destruct (N.ltb_spec (left s) r) as [Hlt|Hge].
      - destruct (N.eq_dec (offset s) 0) as [Hz|Hz].
        + exfalso. pose proof (i_left _ I). lia.
        + split; [apply close_inv; auto|]. cbn. lia.
      - split; auto. pose proof (i_left _ I). lia. }
    destruct I1 as [I1 Hfit]. set (s1 := if left s <? r then close B s else s) in *.
    pose proof (i_left _ I1) as HL.
    destruct (N.ltb_spec (B - offset s1 - r) slack).
    - constructor; cbn [done cur offset left bump_last].
      + apply (i_done _ I1).
      + change (r + (B - offset s1 - r) + sum_rec (cur s1) = offset s1 + r + (B - offset s1 - r)).
        rewrite (i_sum _ I1). lia.
      + lia.
      + intros _. discriminate.
      + discriminate.
    - constructor; cbn [done cur offset left].
      + apply (i_done _ I1).
      + change (r + sum_rec (cur s1) = offset s1 + r). rewrite (i_sum _ I1). lia.
      + lia.
      + intros _. discriminate.
      + discriminate.
  Qed.

  Lemma place_cur_nonempty s n : cur (place B slack s n) <> [].
  Proof.
    unfold place. destruct (_ <? slack); cbn [cur]; [|discriminate].
    destruct (cur (if left s <? dir_rec_len n then close B s else s)); cbn; discriminate.
  Qed.

  Lemma fold_inv : forall names s, inv s -> Forall fits names -> inv (fold_left (place B slack) names s).
  Proof.
    induction names as [|n r IH]; intros s I F; cbn [fold_left]; auto.
    inversion F; subst. apply IH; auto. apply place_inv; auto.
  Qed.

  (* every block written by copy_dir_entries is tiled exactly by its rec_lens *)
  Theorem pack_tiles names : Forall fits names -> names <> [] ->
    forall b, In b (pack B slack names) -> sum_rec b = B.
  Proof.
    intros F Hne b Hb. unfold pack, finish in Hb.
    pose proof (fold_inv names _ inv_init F) as I.
    set (s := fold_left (place B slack) names (mkP [] [] 0 B)) in *.
    apply in_app_or in Hb. destruct Hb as [Hb|[<-|[]]]; [apply (i_done _ I); auto|].
    assert (Hc : cur s <> []).
    { unfold s. destruct (exists_last Hne) as (r & n & ->). rewrite fold_left_app. cbn [fold_left].
      apply place_cur_nonempty. }
    rewrite sum_rec_rev. destruct (N.ltb_spec 0 (left s)).
    - rewrite sum_bump by auto. rewrite (i_sum _ I). apply (i_left _ I).
    - rewrite (i_sum _ I). pose proof (i_left _ I). lia.
  Qed.
End Proofs.

(* the packing copies every entry exactly once, in order *)
Lemma names_of_close B s : concat (map (map fst) (done (close B s))) ++ rev (map fst (cur (close B s))) =
                           concat (map (map fst) (done s)) ++ rev (map fst (cur s)).
Proof.
  unfold close. cbn [done cur]. rewrite map_app, concat_app. cbn [map concat]. rewrite app_nil_r, app_nil_r.
  f_equal. rewrite map_rev. f_equal. destruct (0 <? left s); [apply names_bump|reflexivity].
Qed.

Lemma names_of_place B slack s n :
  concat (map (map fst) (done (place B slack s n))) ++ rev (map fst (cur (place B slack s n))) =
  (concat (map (map fst) (done s)) ++ rev (map fst (cur s))) ++ [n].
Proof.
  unfold place. set (s1 := if left s <? dir_rec_len n then close B s else s).
  assert (E1 : concat (map (map fst) (done s1)) ++ rev (map fst (cur s1)) =
               concat (map (map fst) (done s)) ++ rev (map fst (cur s))).
  { unfold s1. destruct (left s <? dir_rec_len n); [apply names_of_close|reflexivity]. }
  destruct (_ <? slack); cbn [done cur]; rewrite ?names_bump; cbn [map rev]; rewrite app_assoc, E1; reflexivity.
Qed.

Theorem pack_preserves_entries B slack names :
  concat (map (map fst) (pack B slack names)) = names.
Proof.
  unfold pack, finish.
  assert (G : forall l s, concat (map (map fst) (done (fold_left (place B slack) l s))) ++
                          rev (map fst (cur (fold_left (place B slack) l s))) =
                          (concat (map (map fst) (done s)) ++ rev (map fst (cur s))) ++ l).
  { induction l as [|n r IH]; intros s; cbn [fold_left]; [rewrite app_nil_r; reflexivity|].
    rewrite IH, names_of_place, <- app_assoc. reflexivity. }
  specialize (G names (mkP [] [] 0 B)). cbn in G.
  set (s := fold_left (place B slack) names (mkP [] [] 0 B)) in *.
  rewrite map_app, concat_app. cbn [map concat]. rewrite app_nil_r, map_rev.
  rewrite <- G. f_equal. f_equal. destruct (0 <? left s); [apply names_bump|reflexivity].
Qed.

From E2V Require Import Verdict.Verdict.
Local Open Scope N_scope.

Lemma fold_after_false m : forall rs, fold_left (after_problem m) rs false = false.
Proof.
  induction rs as [|r rs IH]; cbn [fold_left]; auto.
  replace (after_problem m false r) with false; auto.
  unfold after_problem. destruct (lookup (fst r) table); auto. destruct (p_prompt p =? src_PROMPT_NONE); auto.
Qed.

Lemma fold_after_true m : forall rs, fold_left (after_problem m) rs true = true ->
  forall r, In r rs -> after_problem m true r = true.
Proof.
  induction rs as [|x rs IH]; intros H r Hr; [destruct Hr|]. cbn [fold_left] in H.
  destruct (after_problem m true x) eqn:E; [|rewrite fold_after_false in H; discriminate].
  destruct Hr as [<-|Hr]; auto.
Qed.

(* what a problem must look like not to spoil the verdict *)
Definition harmless (m : mode) (r : report) : Prop :=
  match lookup (fst r) table with
  | None => True
  | Some e => p_prompt e = src_PROMPT_NONE \/ answer m (snd r) e = true \/ has e src_PR_NO_OK = true
  end.

Lemma after_true_harmless m r : after_problem m true r = true <-> harmless m r.
Proof.
  unfold after_problem, harmless. destruct (lookup (fst r) table) as [e|]; [|tauto].
  destruct (N.eqb_spec (p_prompt e) src_PROMPT_NONE) as [E|E]; [tauto|].
  cbn [andb]. rewrite orb_true_iff. tauto.
Qed.

(* a clean verdict means: every reported problem, in both phases, was either a
   message, answered yes, or one of the NO_OK problems - and nothing called
   unmark_valid directly *)
Theorem clean_verdict m p1 p2 d2 ch :
  N.land (exit_status m p1 p2 d2 ch) FSCK_UNCORRECTED = 0 ->
  d2 = false /\ (forall r, In r p1 -> harmless m r) /\ (forall r, In r p2 -> harmless m r).
Proof.
  unfold exit_status. destruct (final_valid m p1 p2 d2) eqn:F.
  - intros _. unfold final_valid in F. apply andb_true_iff in F. destruct F as [F F3].
    apply andb_true_iff in F. destruct F as [F1 F2]. apply negb_true_iff in F1, F3.
    split; [exact F3|]. split.
    + intros r Hr. apply after_true_harmless. unfold remain in F1.
      destruct (after_problem m true r) eqn:E; auto.
      assert (existsb (fun r0 => negb (after_problem m true r0)) p1 = true); [|congruence].
      apply existsb_exists. exists r. rewrite E. auto.
    + intros r Hr. apply after_true_harmless. eapply fold_after_true; eauto.
  - destruct ch; vm_compute; discriminate.
Qed.

(* in -n mode nothing is answered yes unless a latch says so; without latches
   a clean verdict means every reported problem is a message or NO_OK *)
Theorem clean_verdict_n p1 p2 d2 ch :
  N.land (exit_status ModeNo p1 p2 d2 ch) FSCK_UNCORRECTED = 0 ->
  forall code, In (code, None) (p1 ++ p2) ->
  match lookup code table with
  | None => True
  | Some e => p_prompt e = src_PROMPT_NONE \/ has e src_PR_NO_OK = true
  end.
Proof.
  intros H code Hin. destruct (clean_verdict _ _ _ _ _ H) as (_ & H1 & H2).
  assert (Hh : harmless ModeNo (code, None)).
  { apply in_app_or in Hin. destruct Hin; auto. }
  unfold harmless in Hh. cbn [fst snd] in Hh. destruct (lookup code table) as [e|]; auto.
  destruct Hh as [?|[Ha|?]]; auto. unfold answer in Ha. destruct (has e src_PR_FORCE_NO); discriminate.
Qed.

(* every problem of the current table that tolerates "no" is in the reviewed list *)
Theorem no_ok_reviewed :
  forallb (fun e => implb (has e src_PR_NO_OK) (memN (p_code e) frozen_no_ok)) table = true.
Proof. vm_compute. reflexivity. Qed.

(* the table is a function of the code (no duplicate codes) *)
Theorem table_codes_unique :
  (fix nodup (l : list N) := match l with [] => true | x :: r => negb (memN x r) && nodup r end) (map p_code table) = true.
Proof. vm_compute. reflexivity. Qed.

(* e2fsck's verdict layer: fix_problem's answer and its effect on the "valid"
   flag (e2fsck/problem.c), and the assembly of the exit status from that
   flag (e2fsck/unix.c, repaired code: a problem left unfixed before pass 1
   keeps the filesystem marked invalid).  The problem table is regenerated
   from the source on every run (Gen/ProblemTable.v). *)
From Coq Require Export List NArith Arith Bool Lia.
Export ListNotations.
From E2V Require Export Gen.ProblemTable Frozen.NoOkFrozen.
Local Open Scope N_scope.

Inductive mode := ModeNo | ModeYes | ModePreen.

Record pent := mkP { p_code : N; p_prompt : N; p_flags : N; p_second : N }.
Definition table : list pent := map (fun e => let '(c, p, f, s) := e in mkP c p f s) src_problem_table.

Definition has (e : pent) (flag : N) : bool := negb (N.land (p_flags e) flag =? 0).

Fixpoint lookup (code : N) (t : list pent) : option pent :=
  match t with [] => None | e :: r => if p_code e =? code then Some e else lookup code r end.

(* the answer fix_problem computes for a problem with a prompt; [latch] is the
   remembered answer of the problem's latch group, if any *)
Definition def_yn (m : mode) (e : pent) : bool :=
  negb (has e src_PR_NO_DEFAULT || (has e src_PR_PREEN_NO && match m with ModePreen => true | _ => false end)
        || match m with ModeNo => true | _ => false end).

Definition answer (m : mode) (latch : option bool) (e : pent) : bool :=
  if has e src_PR_FORCE_NO then false
  else match m with
       | ModePreen => def_yn m e
       | _ => match latch with
              | Some a => a
              | None => match m with ModeYes => true | _ => false end
              end
       end.

(* one reported problem: its code and the latch answer in force *)
Definition report := (N * option bool)%type.

(* effect on the valid flag: "if (!answer && !(ptr->flags & PR_NO_OK)) unmark_valid" *)
Definition after_problem (m : mode) (valid : bool) (r : report) : bool :=
  match lookup (fst r) table with
  | None => valid
  | Some e =>
    if p_prompt e =? src_PROMPT_NONE then valid
    else valid && (answer m (snd r) e || has e src_PR_NO_OK)
  end.

(* phase 1 = superblock/journal/resize-inode checks, phase 2 = passes 1..5.
   main(): mark_valid; phase 1; mark_valid; if (PROBLEMS_REMAIN) unmark_valid; phase 2.
   [direct1] / [direct2]: some code path called ext2fs_unmark_valid() directly. *)
Definition remain (m : mode) (rs : list report) : bool :=
  existsb (fun r => negb (after_problem m true r)) rs.

Definition final_valid (m : mode) (phase1 phase2 : list report) (direct2 : bool) : bool :=
  negb (remain m phase1) && fold_left (after_problem m) phase2 true && negb direct2.

Definition FSCK_NONDESTRUCT := 1.
Definition FSCK_UNCORRECTED := 4.

(* exit status as far as the valid flag determines it *)
Definition exit_status (m : mode) (phase1 phase2 : list report) (direct2 changed : bool) : N :=
  if final_valid m phase1 phase2 direct2
  then (if changed then FSCK_NONDESTRUCT else 0)
  else FSCK_UNCORRECTED.

Definition memN (x : N) (l : list N) := existsb (N.eqb x) l.

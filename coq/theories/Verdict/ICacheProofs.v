From E2V Require Import Verdict.ICache.
Local Open Scope N_scope.

Section Proofs.
  Variable V : Type.
  Variable good : N -> V -> bool.

  Lemma In_set_nth (l : list (slot V)) : forall i x s, In s (set_nth V l i x) -> s = x \/ In s l.
  Proof.
    induction l as [|y t IH]; intros [|i] x s H; simpl in *; try tauto.
    - destruct H; auto.
    - destruct H; auto. destruct (IH _ _ _ H); auto.
  Qed.

  Lemma find_coherent (c : ic V) d ino v : coherent V c d -> ino <> 0 -> find V ino (slots V c) = Some v -> v = d ino.
  Proof.
    unfold coherent. intros H Hn. induction (slots V c) as [|s r IH]; simpl; [discriminate|].
    destruct ((s_ino V s =? ino) && negb (ino =? 0)) eqn:C.
    - apply andb_true_iff in C. destruct C as [C _]. apply N.eqb_eq in C.
      intros F. specialize (H s (or_introl eq_refl)). rewrite C in H. rewrite (H Hn) in F. inversion F; auto.
    - intros F. apply IH; auto. intros s' Hs'. apply H. simpl; auto.
  Qed.

  (* a read never returns another inode's bytes, whatever checksum failures happened before *)
  Theorem read_returns_own_inode c d ino : coherent V c d -> ino <> 0 ->
    let '(c', v, ok) := read_inode V good c d ino in v = d ino /\ coherent V c' d.
  Proof.
    intros H Hn. unfold read_inode. destruct (find V ino (slots V c)) as [v|] eqn:F.
    - split; auto. eapply find_coherent; eauto.
    - destruct (good ino (d ino)).
      + split; auto. unfold coherent in *. cbn [slots]. intros s Hs Hs0.
        apply In_set_nth in Hs. destruct Hs as [->|Hs]; auto.
      + split; auto. unfold coherent in *. cbn [slots]. intros s Hs Hs0.
        apply In_set_nth in Hs. destruct Hs as [->|Hs]; auto. cbn in Hs0. contradiction.
  Qed.

  Theorem write_keeps_coherent c d ino v : coherent V c d -> coherent V (fst (write_inode V c d ino v)) (snd (write_inode V c d ino v)).
  Proof.
    unfold coherent, write_inode. cbn [fst snd slots]. intros H s Hs Hs0.
    apply in_map_iff in Hs. destruct Hs as (s0 & E & Hs).
    destruct ((s_ino V s0 =? ino) && negb (ino =? 0)) eqn:C.
    - rewrite <- E. cbn [s_ino s_val]. rewrite N.eqb_refl. reflexivity.
    - rewrite <- E in Hs0 |- *. rewrite (H s0 Hs Hs0). destruct (N.eqb_spec (s_ino V s0) ino) as [E1|E1]; [|reflexivity].
      exfalso. cbn [andb] in C. apply negb_false_iff, N.eqb_eq in C. congruence.
  Qed.
End Proofs.

(* The inode cache of lib/ext2fs/inode.c (ext2fs_read_inode2 / write_inode2 /
   flush_icache), repaired code: a slot whose contents failed checksum
   verification is untagged.  Inode contents are opaque values; [good v] says
   whether the checksum of the bytes verifies. *)
From Coq Require Export List NArith Arith Bool Lia.
Export ListNotations.
Local Open Scope N_scope.

Section ICache.
  Variable V : Type.              (* inode bytes *)
  Variable good : N -> V -> bool. (* ext2fs_inode_csum_verify(ino, bytes) *)

  Record slot := mkSlot { s_ino : N; s_val : option V }.   (* ino 0 = untagged *)
  Record ic := mkIc { slots : list slot; last : nat }.

  Definition table := N -> V.     (* the on-disk inode table *)

  Fixpoint find (ino : N) (l : list slot) : option V :=
    match l with
    | [] => None
    | s :: r => if (s_ino s =? ino) && negb (ino =? 0) then s_val s else find ino r
    end.

  Fixpoint set_nth (l : list slot) (i : nat) (x : slot) : list slot :=
    match l, i with
    | [], _ => []
    | _ :: t, O => x :: t
    | y :: t, S k => y :: set_nth t k x
    end.

  (* ext2fs_read_inode2: cache hit, else read into slot (last+1) mod size, verify, tag or untag *)
  Definition read_inode (c : ic) (d : table) (ino : N) : ic * V * bool (* csum ok *) :=
    match find ino (slots c) with
    | Some v => (c, v, true)
    | None =>
      let i := (S (last c) mod length (slots c))%nat in
      let v := d ino in
      if good ino v
      then (mkIc (set_nth (slots c) i (mkSlot ino (Some v))) i, v, true)
      else (mkIc (set_nth (slots c) i (mkSlot 0 (Some v))) (last c), v, false)
    end.

  (* ext2fs_write_inode2: update a cached copy, write to the table *)
  Definition write_inode (c : ic) (d : table) (ino : N) (v : V) : ic * table :=
    (mkIc (map (fun s => if (s_ino s =? ino) && negb (ino =? 0) then mkSlot ino (Some v) else s) (slots c)) (last c),
     fun i => if i =? ino then v else d i).

  Definition coherent (c : ic) (d : table) : Prop :=
    forall s, In s (slots c) -> s_ino s <> 0 -> s_val s = Some (d (s_ino s)).
End ICache.

(* C01 - repairs converge: proved layers.  Statements only. *)
From E2V Require Import Verdict.Verdict Verdict.VerdictProofs Verdict.ICache Verdict.ICacheProofs.
Local Open Scope N_scope.

(* An e2fsck -y run whose exit status claims success left no problem unfixed
   (in either phase) other than those for which "no" is acceptable, and no
   code path marked the filesystem invalid directly. *)
Theorem success_means_every_problem_was_handled : forall p1 p2 d2 ch,
  N.land (exit_status ModeYes p1 p2 d2 ch) FSCK_UNCORRECTED = 0 ->
  d2 = false /\ (forall r, In r p1 -> harmless ModeYes r) /\ (forall r, In r p2 -> harmless ModeYes r).
Proof. exact (clean_verdict ModeYes). Qed.
Print Assumptions success_means_every_problem_was_handled.

(* The inode cache (the cause of the non-convergent runs on the pinned tree):
   from a coherent cache every read returns the on-disk bytes of the inode
   asked for, and the cache stays coherent whatever the checksum verdict. *)
Theorem icache_read_own_inode : forall (V : Type) (good : N -> V -> bool) c d ino,
  coherent V c d -> ino <> 0 ->
  let '(c', v, ok) := read_inode V good c d ino in v = d ino /\ coherent V c' d.
Proof. exact read_returns_own_inode. Qed.
Print Assumptions icache_read_own_inode.

Theorem icache_write_coherent : forall (V : Type) c d ino v,
  coherent V c d -> coherent V (fst (write_inode V c d ino v)) (snd (write_inode V c d ino v)).
Proof. exact write_keeps_coherent. Qed.
Print Assumptions icache_write_coherent.

(* Non-vacuity: a failed checksum on inode 3 no longer poisons the slot that held inode 7 *)
Example ex_icache :
  let good := fun (i v : N) => negb (i =? 3) in
  let d := fun i : N => 100 + i in
  let c0 := mkIc N [mkSlot N 7 (Some 107); mkSlot N 0 None; mkSlot N 0 None; mkSlot N 0 None] 3 in
  let '(c1, _, ok) := read_inode N good c0 d 3 in
  let '(_, v7, _) := read_inode N good c1 d 7 in (ok, v7) = (false, 107).
Proof. vm_compute. reflexivity. Qed.

(* FROZEN: the problem codes that carried PR_NO_OK (answering 'no' leaves the filesystem 'valid') on the
   pinned tree, reviewed: superblock total counts, time-stamp warnings, optimisation offers, journal/orphan
   housekeeping and message-only entries.  A code that gains PR_NO_OK must be reviewed and added here by hand. *)
From Coq Require Import List NArith.
Import ListNotations.
Local Open Scope N_scope.
Definition frozen_no_ok : list N :=
 [20 (* PR_0_JOURNAL_UNSUPP_SUPER *);
  26 (* PR_0_FS_REV_LEVEL *);
  49 (* PR_0_FUTURE_SB_LAST_MOUNT *);
  50 (* PR_0_FUTURE_SB_LAST_WRITE *);
  60 (* PR_0_FUTURE_SB_LAST_MOUNT_FUDGED *);
  61 (* PR_0_FUTURE_SB_LAST_WRITE_FUDGED *);
  67 (* PR_0_MMP_INVALID_MAGIC *);
  70 (* PR_0_META_AND_GDT_CSUM_SET *);
  71 (* PR_0_MMP_CSUM_INVALID *);
  72 (* PR_0_64BIT_WITHOUT_EXTENTS *);
  75 (* PR_0_CSUM_SEED_WITHOUT_META_CSUM *);
  65553 (* PR_1_TOO_MANY_BAD_BLOCKS *);
  65581 (* PR_1_SUPPRESS_MESSAGES *);
  65584 (* PR_1_SET_IMMUTABLE *);
  65587 (* PR_1_FS_REV_LEVEL *);
  65654 (* PR_1_SPECIAL_EXTENTS_IDATA *);
  65663 (* PR_1_EXTENT_BAD_MAX_DEPTH *);
  65666 (* PR_1_EA_TIME_OUT_OF_RANGE *);
  77830 (* PR_1D_CLONE_QUESTION *);
  81926 (* PR_1E_CAN_COLLAPSE_EXTENT_TREE *);
  81927 (* PR_1E_CAN_NARROW_EXTENT_TREE *);
  131108 (* PR_2_SPLIT_DOT *);
  131111 (* PR_2_SET_FILETYPE *);
  262145 (* PR_4_ZERO_LEN_INODE *);
  327693 (* PR_5_FREE_INODE_COUNT *);
  327695 (* PR_5_FREE_BLOCK_COUNT *);
  393217 (* PR_6_RECREATE_JOURNAL *);
  393229 (* PR_6_ORPHAN_PRESENT_CLEAN_FILE *)].

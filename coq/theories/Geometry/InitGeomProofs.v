From E2V Require Import Layout.Layout Resize.ResizeGeom Resize.ResizeProofs Geometry.InitGeom.
From Coq Require Import ZifyBool ZifyN ZifyNat.
Local Open Scope N_scope.

Lemma ipg_round_props bs isz ipg b itb : ipg_round bs isz ipg = (b, itb) ->
  b mod 8 = 0 /\ 8 <= b /\ itb = ceil_div (b * isz) bs.
Proof.
  unfold ipg_round. intros H. inversion H as [[Hb Hi]]. clear H Hi.
  set (a := ceil_div (ipg * isz) bs * bs / isz) in *.
  set (x := if a <? 8 then 8 else a) in *.
  assert (Hx : 8 <= x) by (unfold x; destruct (a <? 8) eqn:E; lia).
  split; [apply N.mod_mul; lia|]. split; [|reflexivity].
  pose proof (N.div_mod x 8 ltac:(lia)) as D. pose proof (N.mod_lt x 8 ltac:(lia)) as M.
  set (q := x / 8) in *. clearbody q. lia.
Qed.

Lemma ipg_loop_props : forall fuel bs isz fi G ipg b itb,
  ipg_loop fuel bs isz fi G ipg = Some (b, itb) ->
  b mod 8 = 0 /\ 8 <= b /\ itb = ceil_div (b * isz) bs /\ b * G <= U32MAX /\ fi + 1 <= b * G.
Proof.
  induction fuel as [|fu IH]; intros bs isz fi G ipg b itb H; [discriminate|].
  cbn [ipg_loop] in H. destruct (ipg_round bs isz ipg) as [b0 itb0] eqn:E.
  destruct (U32MAX <? b0 * G) eqn:C1; [eapply IH; eassumption|].
  destruct (b0 * G <? fi + 1) eqn:C2; [eapply IH; eassumption|].
  inversion H; subst b0 itb0. destruct (ipg_round_props _ _ _ _ _ E) as (A & B & C).
  repeat split; try assumption; lia.
Qed.

(* what a successful ext2fs_initialize guarantees about the geometry *)
Definition init_good (p : iparam) (g : igeom) : Prop :=
  let f := p_first_data p in
  let dpb := p_bs p / (if p_64bit p then 64 else 32) in
  r_blocks g <= p_blocks p /\
  r_groups g = div_ceil (r_blocks g - f) (r_bpg g) /\ 1 <= r_groups g /\
  r_desc_blocks g = div_ceil (r_groups g) dpb /\
  r_ipg g mod 8 = 0 /\ 8 <= r_ipg g /\
  r_itb g = ceil_div (r_ipg g * p_isz p) (p_bs p) /\
  r_inodes g = r_ipg g * r_groups g /\ r_inodes g <= U32MAX /\ p_first_ino p + 1 <= r_inodes g /\
  3 + r_itb g + r_rsv g + (if r_meta_bg g then 1 else r_desc_blocks g) <= r_bpg g /\
  r_rsv g <= p_bs p / 4 /\
  let rem := (r_blocks g - f) mod r_bpg g in
  let ov := 2 + r_itb g + (if has_bg (mk_sb p (r_bpg g) dpb (r_desc_blocks g) (r_rsv g)) (r_groups g)
                           then 1 + r_desc_blocks g + r_rsv g else 0) in
  (rem = 0 \/ (ov + 50 <= rem)).

Lemma init_loop_good : forall fuel p blocks bpg meta rsz g,
  blocks <= p_blocks p -> (p_rsv p <= p_bs p / 4) ->
  init_loop fuel p blocks bpg meta rsz = IOk g -> init_good p g.
Proof.
  induction fuel as [|fu IH]; intros p blocks bpg meta rsz g Hb Hr H; [discriminate|].
  cbn [init_loop] in H.
  set (f := p_first_data p) in *. set (bs := p_bs p) in *.
  set (G := div_ceil (blocks - f) bpg) in *.
  destruct (N.eqb_spec G 0) as [G0|G0]; [discriminate|].
  set (dpb := bs / (if p_64bit p then 64 else 32)) in *.
  set (db := div_ceil G dpb) in *.
  match type of H with context [div_ceil ?x G] => set (inodes0 := x) in * end.
  destruct (bs * 8 <? div_ceil inodes0 G) eqn:C0.
  { destruct (256 <=? bpg); [|discriminate]. eapply IH; [| |exact H]; [lia|assumption]. }
  match type of H with context [ipg_loop _ _ _ _ _ ?x] => set (ipg1 := x) in * end.
  destruct (ipg_loop IPG_FUEL bs (p_isz p) (p_first_ino p) G ipg1) as [[ipg itb]|] eqn:EL; [|discriminate].
  apply ipg_loop_props in EL. destruct EL as (L1 & L2 & L3 & L4 & L5).
  match type of H with context [bs / 4 <? ?x] => set (rsv1 := x) in * end.
  destruct (bs / 4 <? rsv1) eqn:C1; [discriminate|].
  set (auto := bpg * 3 / 4 <? rsv1 + db) in *.
  set (rsv := if auto then (if negb (p_rsv p =? 0) then p_rsv p else 0) else rsv1) in *.
  match type of H with context [bpg <? ?x] => set (ov1 := x) in * end.
  destruct (bpg <? ov1) eqn:C2; [discriminate|].
  set (rem := (blocks - f) mod bpg) in *.
  match type of H with context [(rem <? ?x + 50)] => set (ov := x) in * end.
  destruct ((G =? 1) && negb (rem =? 0) && (rem <? ov)) eqn:C3; [discriminate|].
  destruct (negb (rem =? 0) && (rem <? ov + 50)) eqn:C4.
  { eapply IH; [| |exact H]; [lia|assumption]. }
  inversion H; subst g. clear H. unfold init_good. cbn [r_blocks r_bpg r_groups r_desc_blocks r_ipg r_itb r_inodes r_rsv r_meta_bg r_resize_inode].
  fold f bs dpb G db rem.
  assert (Hrsv : rsv <= bs / 4).
  { unfold rsv. destruct auto; [|lia]. destruct (negb (p_rsv p =? 0)); [assumption|lia]. }
  split; [assumption|]. split; [reflexivity|]. split; [lia|]. split; [reflexivity|].
  split; [assumption|]. split; [assumption|]. split; [assumption|]. split; [reflexivity|].
  split; [assumption|]. split; [assumption|]. split; [unfold ov1 in C2; lia|]. split; [assumption|].
  cbv zeta. fold ov.
  destruct (N.eq_dec rem 0) as [R0|R0]; [left; assumption|right].
  replace (rem =? 0) with false in C4 by lia. cbn [negb andb] in C4. lia.
Qed.

Lemma init_geom_good_lemma p g : p_rsv p <= p_bs p / 4 -> init_geom p = IOk g -> init_good p g.
Proof. intros Hr H. unfold init_geom in H. eapply init_loop_good; [|exact Hr|exact H]. lia. Qed.

(* the rounding never loses requested inodes and fills the inode table blocks exactly,
   when the block holds a multiple of 8 inodes (every legal block/inode size pair except bs = isz..4*isz) *)
Lemma ipg_round_fills_lemma bs isz ipg k : 0 < isz -> bs = k * isz -> k mod 8 = 0 -> 0 < k -> 0 < ipg ->
  let '(b, itb) := ipg_round bs isz ipg in ipg <= b /\ b * isz = itb * bs.
Proof.
  intros Hi Hbs Hk Hk0 Hip. unfold ipg_round.
  set (itb := ceil_div (ipg * isz) bs).
  assert (Hbs0 : 0 < bs) by nia.
  assert (Ha : itb * bs / isz = itb * k).
  { rewrite Hbs. rewrite N.mul_assoc. apply N.div_mul. lia. }
  rewrite Ha.
  assert (Hitb : ipg * isz <= itb * bs /\ 1 <= itb).
  { unfold itb, ceil_div.
    pose proof (N.div_mod (ipg * isz + bs - 1) bs ltac:(lia)) as D.
    pose proof (N.mod_lt (ipg * isz + bs - 1) bs ltac:(lia)) as M.
    set (q := (ipg * isz + bs - 1) / bs) in *. set (r := (ipg * isz + bs - 1) mod bs) in *. clearbody q r.
    assert (1 <= ipg * isz) by nia. split; [nia|]. destruct q; [nia|lia]. }
  destruct Hitb as [H1 H2].
  assert (Hkq : exists q, k = 8 * q /\ 1 <= q).
  { exists (k / 8). pose proof (N.div_mod k 8 ltac:(lia)) as D. rewrite Hk, N.add_0_r in D.
    split; [exact D|]. destruct (k / 8); lia. }
  destruct Hkq as (q & Hq & Hq1).
  assert (H8 : (itb * k) mod 8 = 0).
  { rewrite Hq. replace (itb * (8 * q)) with (itb * q * 8) by lia. apply N.mod_mul. lia. }
  assert (H88 : 8 <= itb * k) by nia.
  replace (itb * k <? 8) with false by lia.
  assert (Hb : itb * k / 8 * 8 = itb * k).
  { pose proof (N.div_mod (itb * k) 8 ltac:(lia)) as D. rewrite H8, N.add_0_r in D. lia. }
  rewrite Hb. split.
  - rewrite Hbs in H1. rewrite N.mul_assoc in H1. apply N.mul_le_mono_pos_r in H1; assumption.
  - assert (E : itb * k * isz = itb * bs) by (rewrite Hbs; lia).
    rewrite E. unfold ceil_div.
    replace (itb * bs + bs - 1) with (itb * bs + (bs - 1)) by lia.
    rewrite N.div_add_l by lia. rewrite N.div_small by lia. lia.
Qed.

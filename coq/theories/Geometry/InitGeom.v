(* ext2fs_initialize (lib/ext2fs/initialize.c): the geometry a new filesystem gets.
   Non-bigalloc case; the two retry loops of the C code are recursion on fuel. *)
From E2V Require Import Layout.Layout Resize.ResizeGeom.
Local Open Scope N_scope.

Record iparam := mkIP {
  p_blocks : N;            (* param->s_blocks_count *)
  p_bs : N;                (* block size *)
  p_isz : N;               (* inode size *)
  p_inodes : N;            (* param->s_inodes_count, 0 = default *)
  p_bpg : N;               (* param->s_blocks_per_group, 0 = default *)
  p_first_data : N;
  p_first_ino : N;
  p_sparse : bool; p_sparse2 : bool; p_bb0 : N; p_bb1 : N;
  p_resize_inode : bool; p_meta_bg : bool; p_64bit : bool;
  p_rsv : N;               (* param->s_reserved_gdt_blocks, 0 = computed *)
}.

Record igeom := mkIG {
  r_blocks : N; r_bpg : N; r_groups : N; r_desc_blocks : N;
  r_ipg : N; r_itb : N; r_inodes : N; r_rsv : N; r_meta_bg : bool; r_resize_inode : bool;
}.

Inductive ires := ITooSmall | ITooManyInodes | IResGdt | IOutOfFuel | IOk (g : igeom).

Definition ceil_div (a b : N) := (a + b - 1) / b.      (* the inline rounding of inode table blocks *)

(* inodes per group rounded so that the inode table blocks are filled, a multiple of 8, at least 8 *)
Definition ipg_round (bs isz ipg : N) : N * N :=
  let itb := ceil_div (ipg * isz) bs in
  let a := itb * bs / isz in
  let b := (if a <? 8 then 8 else a) / 8 * 8 in
  (b, ceil_div (b * isz) bs).

Fixpoint ipg_loop (fuel : nat) (bs isz first_ino G ipg : N) : option (N * N) :=
  match fuel with
  | O => None
  | S fu =>
    let '(b, itb) := ipg_round bs isz ipg in
    if U32MAX <? b * G then ipg_loop fu bs isz first_ino G (ipg - 1)
    else if b * G <? first_ino + 1 then ipg_loop fu bs isz first_ino G (ipg + 8)
    else Some (b, itb)
  end.

Definition calc_rsv (bs blocks f bpg dpb db : N) : N :=
  let maxb := if blocks <? U32MAX / 1024 then blocks * 1024 else U32MAX in
  let g := div_ceil (maxb - f) bpg in
  let r := div_ceil g dpb - db in
  if bs / 4 <? r then bs / 4 else r.

Definition mk_sb (p : iparam) (bpg dpb db rsv : N) : sbinfo :=
  mkSb (p_sparse p) (p_sparse2 p) (p_bb0 p) (p_bb1 p) false 0 dpb db rsv (p_first_data p) bpg (p_bs p).

(* loop bounds: the inner loop changes ipg by 1 or 8 per round, the outer one lowers bpg by 8 per round *)
Definition IPG_FUEL := N.to_nat 70000.
Definition INIT_FUEL := N.to_nat 9000.

Fixpoint init_loop (fuel : nat) (p : iparam) (blocks bpg : N) (meta rsz : bool) : ires :=
  match fuel with
  | O => IOutOfFuel
  | S fu =>
    let f := p_first_data p in
    let bs := p_bs p in
    let G := div_ceil (blocks - f) bpg in
    if G =? 0 then ITooSmall else
    let dpb := bs / (if p_64bit p then 64 else 32) in
    let db := div_ceil G dpb in
    let i := if 4096 <=? bs then 1 else 4096 / bs in
    let inodes0 := if negb (p_inodes p =? 0) then p_inodes p
                   else if p_64bit p && (4294967296 <=? blocks / i) then U32MAX else blocks / i in
    let ipg0 := div_ceil inodes0 G in
    if bs * 8 <? ipg0 then
      (if 256 <=? bpg then init_loop fu p (p_blocks p) (bpg - 8) meta rsz else ITooManyInodes)
    else
    let maxipg := 65536 - bs / p_isz p in     (* EXT2_MAX_INODES_PER_GROUP *)
    let ipg1 := if maxipg <? ipg0 then maxipg else ipg0 in
    match ipg_loop IPG_FUEL bs (p_isz p) (p_first_ino p) G ipg1 with
    | None => IOutOfFuel
    | Some (ipg, itb) =>
      let rsv0 := if rsz then calc_rsv bs blocks f bpg dpb db else 0 in
      let rsv1 := if negb (p_rsv p =? 0) then p_rsv p else rsv0 in
      if bs / 4 <? rsv1 then IResGdt else
      let auto := bpg * 3 / 4 <? rsv1 + db in
      let meta' := meta || auto in
      let rsz' := if auto then false else rsz in
      let rsv := if auto then (if negb (p_rsv p =? 0) then p_rsv p else 0) else rsv1 in
      let ov1 := 3 + itb + rsv + (if meta' then 1 else db) in
      if bpg <? ov1 then ITooManyInodes else
      let sb := mk_sb p bpg dpb db rsv in
      let ov := 2 + itb + (if has_bg sb G then 1 + db + rsv else 0) in
      let rem := (blocks - f) mod bpg in
      if (G =? 1) && negb (rem =? 0) && (rem <? ov) then ITooSmall
      else if negb (rem =? 0) && (rem <? ov + 50) then init_loop fu p (blocks - rem) bpg meta' rsz'
      else IOk (mkIG blocks bpg G db ipg itb (ipg * G) rsv meta' rsz')
    end
  end.

Definition init_geom (p : iparam) : ires :=
  let bpg0 := if negb (p_bpg p =? 0) then p_bpg p else p_bs p * 8 in
  let bpg := if 65528 <? bpg0 then 65528 else bpg0 in       (* EXT2_MAX_BLOCKS_PER_GROUP *)
  init_loop INIT_FUEL p (p_blocks p) bpg (p_meta_bg p) (p_resize_inode p).

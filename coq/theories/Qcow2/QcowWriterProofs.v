From E2V Require Import Qcow2.QcowWriter.
From Coq Require Import ZifyBool ZifyN ZifyNat.
Local Open Scope N_scope.

Fixpoint uget (u : list tbl) (off : N) : option tbl :=
  match u with
  | [] => None
  | t :: r => if t_off t =? off then Some t else uget r off
  end.

(* what the image will answer once everything is flushed: cached tables first, then the file *)
Definition vlookup (l2s : N) (s : wst) (blk : N) : option N :=
  match aget (w_l1 s) (blk / l2s) with
  | None => None
  | Some off =>
    match uget (w_used s) off with
    | Some t => aget (t_data t) (blk mod l2s)
    | None => match fget (w_file s) off with None => None | Some d => aget d (blk mod l2s) end
    end
  end.

Lemma aget_in m k v : aget m k = Some v -> In (k, v) m.
Proof.
  induction m as [|[k' v'] r IH]; cbn [aget]; [discriminate|].
  destruct (N.eqb_spec k' k) as [->|N]; [intros H; injection H as ->; left; reflexivity|intros H; right; apply IH; exact H].
Qed.

Lemma aget_none m k : aget m k = None <-> ~ In k (map fst m).
Proof.
  induction m as [|[k' v'] r IH]; cbn [aget map fst In]; [tauto|].
  destruct (N.eqb_spec k' k) as [->|N]; [split; [discriminate|intros H; exfalso; apply H; left; reflexivity]|].
  rewrite IH. tauto.
Qed.

Lemma in_aget m k v : NoDup (map fst m) -> In (k, v) m -> aget m k = Some v.
Proof.
  induction m as [|[k' v'] r IH]; cbn [aget map fst In]; [intros _ []|].
  intros ND H. apply NoDup_cons_iff in ND. destruct ND as [NI ND].
  destruct H as [H|H].
  - injection H as -> ->. rewrite N.eqb_refl. reflexivity.
  - destruct (N.eqb_spec k' k) as [->|N]; [exfalso; apply NI; apply (in_map fst) in H; exact H|apply IH; assumption].
Qed.

Lemma snd_unique (m : amap) k1 k2 v : NoDup (map snd m) -> In (k1, v) m -> In (k2, v) m -> k1 = k2.
Proof.
  induction m as [|[k' v'] r IH]; cbn [map snd In]; [intros _ []|].
  intros ND H1 H2. apply NoDup_cons_iff in ND. destruct ND as [NI ND].
  destruct H1 as [H1|H1]; destruct H2 as [H2|H2].
  - congruence.
  - injection H1 as -> ->. exfalso. apply NI. apply (in_map snd) in H2. exact H2.
  - injection H2 as -> ->. exfalso. apply NI. apply (in_map snd) in H1. exact H1.
  - apply IH; assumption.
Qed.

Lemma fget_flush u f off :
  fget (map (fun t => (t_off t, t_data t)) u ++ f) off =
  match uget u off with Some t => Some (t_data t) | None => fget f off end.
Proof.
  induction u as [|t r IH]; cbn [map app fget uget]; [reflexivity|].
  destruct (t_off t =? off); [reflexivity|exact IH].
Qed.

Lemma vlookup_flush l2s s b : vlookup l2s (flush s) b = vlookup l2s s b.
Proof.
  unfold vlookup, flush. cbn [w_l1 w_used w_file uget].
  destruct (aget (w_l1 s) (b / l2s)) as [off|]; [|reflexivity].
  rewrite fget_flush. destruct (uget (w_used s) off); reflexivity.
Qed.

Lemma uget_in u off t : uget u off = Some t -> In t u /\ t_off t = off.
Proof.
  induction u as [|x r IH]; cbn [uget]; [discriminate|].
  destruct (N.eqb_spec (t_off x) off) as [E|N]; [intros H; injection H as ->; split; [left; reflexivity|exact E]|].
  intros H. destruct (IH H). split; [right; assumption|assumption].
Qed.

Lemma divmod_eq l2s a b : 0 < l2s -> a / l2s = b / l2s -> a mod l2s = b mod l2s -> a = b.
Proof.
  intros H Q R. rewrite (N.div_mod a l2s) by lia. rewrite (N.div_mod b l2s) by lia. rewrite Q, R. reflexivity.
Qed.

Record Inv (l2s : N) (c : nat) (s : wst) (sp : N -> option N) (last : option N) (hi : N) : Prop := {
  v_free : Forall (fun d => d = []) (w_free s);
  v_keys : NoDup (map fst (w_l1 s));
  v_offs : NoDup (w_next s :: map snd (w_l1 s));
  v_used : forall t, In t (w_used s) -> In (t_l1 t, t_off t) (w_l1 s);
  v_file : forall o d, In (o, d) (w_file s) -> In o (map snd (w_l1 s));
  v_one : NoDup (map t_off (w_used s) ++ map fst (w_file s));
  v_len : (length (w_used s) + length (w_free s) = c)%nat;
  v_max : forall k, In k (map fst (w_l1 s)) -> match last with Some lb => k <= lb / l2s | None => False end;
  v_tail : match w_used s with
           | t :: _ => match last with Some lb => t_l1 t = lb / l2s | None => False end
           | [] => w_l1 s = []
           end;
  v_hi : forall o, In o (w_next s :: map snd (w_l1 s)) -> o <= hi;
  v_sp : forall b, vlookup l2s s b = sp b
}.

Lemma inv_init l2s c first : Inv l2s c (init c first) (fun _ => None) None first.
Proof.
  constructor; cbn [init w_free w_l1 w_used w_file w_next map app length]; auto.
  - apply Forall_forall. intros d Hd. apply repeat_spec in Hd. exact Hd.
  - constructor.
  - constructor; [intros []|constructor].
  - constructor.
  - rewrite repeat_length. reflexivity.
  - intros o [<-|[]]. lia.
Qed.

(* the state get_free_table works on: the cache itself, or the flushed cache when no buffer is free *)
Definition pre_new (s : wst) : wst := match w_free s with [] => flush s | _ => s end.

Lemma pre_new_facts l2s c s sp last hi : (0 < c)%nat -> Inv l2s c s sp last hi ->
  let s1 := pre_new s in
  w_l1 s1 = w_l1 s /\ w_next s1 = w_next s /\
  (exists d fr, w_free s1 = d :: fr /\ d = [] /\ Forall (fun x => x = []) fr /\ (length (w_used s1) + S (length fr) = c)%nat) /\
  (forall t, In t (w_used s1) -> In (t_l1 t, t_off t) (w_l1 s)) /\
  (forall o d, In (o, d) (w_file s1) -> In o (map snd (w_l1 s))) /\
  NoDup (map t_off (w_used s1) ++ map fst (w_file s1)) /\
  (forall b, vlookup l2s s1 b = sp b).
Proof.
  intros Hc I. unfold pre_new. destruct (w_free s) as [|d fr] eqn:F.
  - unfold flush. cbn [w_l1 w_next w_free w_used w_file]. rewrite F, app_nil_r.
    split; [reflexivity|]. split; [reflexivity|].
    pose proof (v_len _ _ _ _ _ _ I) as L. rewrite F in L. cbn [length] in L.
    destruct (w_used s) as [|t r] eqn:U; [cbn [length] in L; lia|].
    split.
    { exists [], (map (fun _ => []) r). cbn [map]. split; [reflexivity|]. split; [reflexivity|]. split.
      - apply Forall_forall. intros x Hx. apply in_map_iff in Hx. destruct Hx as (_ & <- & _). reflexivity.
      - rewrite map_length. cbn [length] in *. lia. }
    split; [intros x []|]. split.
    { intros o d' H. apply in_app_or in H. destruct H as [H|H]; [|apply (v_file _ _ _ _ _ _ I o d'); exact H].
      apply in_map_iff in H. destruct H as (x & E & Hx). injection E as <- <-.
      assert (Hu : In x (w_used s)) by (rewrite U; exact Hx).
      pose proof (v_used _ _ _ _ _ _ I x Hu) as H. apply (in_map snd) in H. exact H. }
    split.
    { cbn [app]. rewrite map_app, map_map. cbn [fst]. pose proof (v_one _ _ _ _ _ _ I) as O. rewrite U in O. exact O. }
    intros b. rewrite <- (v_sp _ _ _ _ _ _ I b). rewrite <- (vlookup_flush l2s s b).
    unfold flush. rewrite F, app_nil_r, U. reflexivity.
  - split; [reflexivity|]. split; [reflexivity|].
    pose proof (v_free _ _ _ _ _ _ I) as Fr. rewrite F in Fr. apply Forall_cons_iff in Fr. destruct Fr as [Fd Ff].
    pose proof (v_len _ _ _ _ _ _ I) as L. rewrite F in L. cbn [length] in L.
    split; [exists d, fr; repeat split; auto; lia|].
    split; [apply (v_used _ _ _ _ _ _ I)|]. split; [apply (v_file _ _ _ _ _ _ I)|]. split; [apply (v_one _ _ _ _ _ _ I)|apply (v_sp _ _ _ _ _ _ I)].
Qed.

Lemma in_snd (m : amap) k v : In (k, v) m -> In v (map snd m).
Proof. intros H. apply (in_map snd) in H. exact H. Qed.

Lemma in_fst (m : amap) k v : In (k, v) m -> In k (map fst m).
Proof. intros H. apply (in_map fst) in H. exact H. Qed.

Lemma add_step l2s c s sp last hi blk data next :
  0 < l2s -> (0 < c)%nat -> Inv l2s c s sp last hi ->
  match last with Some lb => lb < blk | None => True end -> hi < next ->
  Inv l2s c (add l2s s (blk, data, next)) (fun b => if b =? blk then Some data else sp b) (Some blk) next.
Proof.
  intros Hl Hc I Hlast Hnext.
  set (l1i := blk / l2s). set (l2i := blk mod l2s).
  assert (Hq : forall b, b / l2s = l1i -> b mod l2s = l2i -> b = blk) by (intros b Q R; apply (divmod_eq l2s); auto).
  (* --- the new-table branch, shared by "used list empty" and "tail has another L1 index" --- *)
  assert (NEW : ~ In l1i (map fst (w_l1 s)) ->
    Inv l2s c
      (let s1 := pre_new s in
       match w_free s1 with
       | [] => s1
       | d :: fr => mkW ((l1i, w_next s1) :: w_l1 s1) (mkT l1i (w_next s1) ((l2i, data) :: d) :: w_used s1) fr next (w_file s1)
       end) (fun b => if b =? blk then Some data else sp b) (Some blk) next).
  { intros Fresh.
    destruct (pre_new_facts l2s c s sp last hi Hc I) as (E1 & E2 & (d & fr & F & Dd & Ffr & Len) & U1 & F1 & O1 & V1).
    cbv zeta. rewrite F, E1, E2. subst d.
    pose proof (v_offs _ _ _ _ _ _ I) as Offs. apply NoDup_cons_iff in Offs. destruct Offs as [N0 Offs].
    assert (NoN : forall x, In x (map t_off (w_used (pre_new s)) ++ map fst (w_file (pre_new s))) -> In x (map snd (w_l1 s))).
    { intros x Hx. apply in_app_or in Hx. destruct Hx as [Hx|Hx].
      - apply in_map_iff in Hx. destruct Hx as (t & <- & Ht). eapply in_snd. apply U1. exact Ht.
      - apply in_map_iff in Hx. destruct Hx as ([o dd] & <- & Ht). eapply F1. exact Ht. }
    constructor; cbn [w_free w_l1 w_used w_file w_next map fst snd t_off t_l1 t_data].
    - exact Ffr.
    - constructor; [exact Fresh|apply (v_keys _ _ _ _ _ _ I)].
    - constructor.
      + intros [X|X]; [pose proof (v_hi _ _ _ _ _ _ I (w_next s) ltac:(left; reflexivity)); lia|].
        pose proof (v_hi _ _ _ _ _ _ I next ltac:(right; exact X)). lia.
      + constructor; [exact N0|exact Offs].
    - intros t [<-|Ht]; [left; reflexivity|right; apply U1; exact Ht].
    - intros o dd H. right. eapply F1. exact H.
    - cbn [app]. constructor; [intros X; apply N0; apply NoN; exact X|exact O1].
    - cbn [length]. lia.
    - intros k [<-|Hk]; [unfold l1i; lia|].
      pose proof (v_max _ _ _ _ _ _ I k Hk) as M. destruct last as [lb|]; [|destruct M].
      assert (lb / l2s <= blk / l2s) by (apply N.div_le_mono; lia). lia.
    - reflexivity.
    - intros o [<-|[<-|Ho]]; [lia| |].
      + pose proof (v_hi _ _ _ _ _ _ I (w_next s) ltac:(left; reflexivity)). lia.
      + pose proof (v_hi _ _ _ _ _ _ I o ltac:(right; exact Ho)). lia.
    - intros b. unfold vlookup. cbn [w_l1 w_used w_file aget uget t_off t_data].
      destruct (N.eqb_spec l1i (b / l2s)) as [Eq|Ne].
      + rewrite N.eqb_refl. cbn [t_data aget].
        destruct (N.eqb_spec l2i (b mod l2s)) as [Er|Nr].
        * assert (b = blk) by (apply Hq; auto). subst b. rewrite N.eqb_refl. reflexivity.
        * destruct (N.eqb_spec b blk) as [->|Nb]; [exfalso; apply Nr; reflexivity|].
          rewrite <- (v_sp _ _ _ _ _ _ I b). unfold vlookup. rewrite <- Eq.
          apply aget_none in Fresh. rewrite Fresh. reflexivity.
      + destruct (N.eqb_spec b blk) as [->|Nb]; [exfalso; apply Ne; reflexivity|].
        rewrite <- (V1 b). unfold vlookup. rewrite E1.
        destruct (aget (w_l1 s) (b / l2s)) as [off|] eqn:A; [|reflexivity].
        destruct (N.eqb_spec (w_next s) off) as [Eo|No]; [|reflexivity].
        exfalso. apply N0. rewrite Eo. eapply in_snd. apply aget_in. exact A. }
  unfold add. fold l1i l2i.
  destruct (w_used s) as [|t r] eqn:U.
  - (* nothing cached yet: nothing was ever added *)
    apply NEW. pose proof (v_tail _ _ _ _ _ _ I) as T. rewrite U in T. rewrite T. intros [].
  - destruct (N.eqb_spec (t_l1 t) l1i) as [Eq|Ne].
    + (* the tail table covers this block *)
      pose proof (v_used _ _ _ _ _ _ I t ltac:(rewrite U; left; reflexivity)) as Tin.
      pose proof (v_offs _ _ _ _ _ _ I) as Offs. apply NoDup_cons_iff in Offs. destruct Offs as [N0 Offs].
      constructor; cbn [w_free w_l1 w_used w_file w_next map t_off t_l1 t_data].
      * apply (v_free _ _ _ _ _ _ I).
      * apply (v_keys _ _ _ _ _ _ I).
      * apply (v_offs _ _ _ _ _ _ I).
      * intros x [<-|Hx]; [exact Tin|apply (v_used _ _ _ _ _ _ I); rewrite U; right; exact Hx].
      * apply (v_file _ _ _ _ _ _ I).
      * pose proof (v_one _ _ _ _ _ _ I) as O. rewrite U in O. exact O.
      * pose proof (v_len _ _ _ _ _ _ I) as L. rewrite U in L. exact L.
      * intros k Hk. pose proof (v_max _ _ _ _ _ _ I k Hk) as M. destruct last as [lb|]; [|destruct M].
        assert (lb / l2s <= blk / l2s) by (apply N.div_le_mono; lia). lia.
      * exact Eq.
      * intros o Ho. pose proof (v_hi _ _ _ _ _ _ I o Ho). lia.
      * intros b. rewrite <- (v_sp _ _ _ _ _ _ I b). unfold vlookup. rewrite U. cbn [w_l1 w_used w_file uget t_off t_data].
        destruct (aget (w_l1 s) (b / l2s)) as [off|] eqn:A.
        -- destruct (N.eqb_spec (t_off t) off) as [Eo|No].
           ++ (* this table: its L1 index is the block's *)
              assert (Kb : b / l2s = l1i).
              { rewrite <- Eq. apply (snd_unique (w_l1 s) _ _ off Offs); [apply aget_in; exact A|rewrite <- Eo; exact Tin]. }
              cbn [t_data aget]. destruct (N.eqb_spec l2i (b mod l2s)) as [Er|Nr].
              ** assert (b = blk) by (apply Hq; auto). subst b. rewrite N.eqb_refl. reflexivity.
              ** destruct (N.eqb_spec b blk) as [->|Nb]; [exfalso; apply Nr; reflexivity|reflexivity].
           ++ destruct (N.eqb_spec b blk) as [->|Nb]; [|reflexivity].
              exfalso. apply No. fold l1i in A.
              pose proof (in_aget _ _ _ (v_keys _ _ _ _ _ _ I) Tin) as A2. rewrite Eq in A2. congruence.
        -- destruct (N.eqb_spec b blk) as [->|Nb]; [|reflexivity].
           exfalso. fold l1i in A. apply aget_none in A. apply A. rewrite <- Eq. eapply in_fst. exact Tin.
    + (* another L1 index: it is larger than every index seen so far *)
      apply NEW. intros Hk.
      pose proof (v_max _ _ _ _ _ _ I l1i Hk) as M. pose proof (v_tail _ _ _ _ _ _ I) as T. rewrite U in T.
      destruct last as [lb|]; [|destruct M].
      assert (lb / l2s <= blk / l2s) by (apply N.div_le_mono; lia). unfold l1i in *. lia.
Qed.

(* the caller's obligations: blocks strictly ascending, every announced table offset above all earlier ones *)
Fixpoint ascending (last : option N) (hi : N) (items : list (N * N * N)) : Prop :=
  match items with
  | [] => True
  | (b, d, n) :: r => match last with Some lb => lb < b | None => True end /\ hi < n /\ ascending (Some b) n r
  end.

Definition sp_step (sp : N -> option N) (it : N * N * N) : N -> option N :=
  fun b => if b =? fst (fst it) then Some (snd (fst it)) else sp b.

Lemma run_inv l2s c : 0 < l2s -> (0 < c)%nat -> forall items s sp last hi,
  Inv l2s c s sp last hi -> ascending last hi items ->
  exists last' hi', Inv l2s c (fold_left (add l2s) items s) (fold_left sp_step items sp) last' hi'.
Proof.
  intros Hl Hc. induction items as [|[[b d] n] r IH]; intros s sp last hi I A; cbn [fold_left].
  - exists last, hi. exact I.
  - cbn [ascending] in A. destruct A as (A1 & A2 & A3).
    apply (IH _ _ (Some b) n); [|exact A3].
    exact (add_step l2s c s sp last hi b d n Hl Hc I A1 A2).
Qed.

Lemma sp_fold_notin items : forall sp b, ~ In b (map (fun it => fst (fst it)) items) -> fold_left sp_step items sp b = sp b.
Proof.
  induction items as [|it r IH]; intros sp b H; cbn [fold_left]; [reflexivity|].
  cbn [map In] in H. rewrite IH by tauto. unfold sp_step.
  destruct (N.eqb_spec b (fst (fst it))) as [->|N]; [exfalso; apply H; left; reflexivity|reflexivity].
Qed.

Lemma ascending_gt items : forall last hi b, ascending (Some last) hi items -> In b (map (fun it => fst (fst it)) items) -> last < b.
Proof.
  induction items as [|[[b' d] n] r IH]; intros last hi b A H; cbn [map In fst] in H; [destruct H|].
  cbn [ascending] in A. destruct A as (A1 & A2 & A3). destruct H as [<-|H]; [exact A1|].
  pose proof (IH b' n b A3 H). lia.
Qed.

Lemma sp_fold_in items : forall sp last hi b d n, ascending last hi items -> In (b, d, n) items ->
  fold_left sp_step items sp b = Some d.
Proof.
  induction items as [|[[b' d'] n'] r IH]; intros sp last hi b d n A H; [destruct H|].
  cbn [ascending] in A. destruct A as (A1 & A2 & A3). cbn [fold_left]. destruct H as [H|H].
  - injection H as -> -> ->. rewrite sp_fold_notin.
    + unfold sp_step. cbn [fst snd]. rewrite N.eqb_refl. reflexivity.
    + intros X. pose proof (ascending_gt r b n b A3 X). lia.
  - eapply IH; eassumption.
Qed.

Lemma qlookup_flushed l2s s b : w_used s = [] -> qlookup l2s s b = vlookup l2s s b.
Proof. intros U. unfold qlookup, vlookup. rewrite U. destruct (aget _ _); reflexivity. Qed.

(* what the image answers after the whole run *)
Theorem writer_maps_exactly l2s c first items : 0 < l2s -> (0 < c)%nat -> ascending None first items ->
  let img := write_all l2s c first items in
  (forall b d n, In (b, d, n) items -> qlookup l2s img b = Some d) /\
  (forall b, ~ In b (map (fun it => fst (fst it)) items) -> qlookup l2s img b = None).
Proof.
  intros Hl Hc A img.
  destruct (run_inv l2s c Hl Hc items _ _ _ _ (inv_init l2s c first) A) as (last' & hi' & I).
  assert (Q : forall b, qlookup l2s img b = fold_left sp_step items (fun _ => None) b).
  { intros b. unfold img, write_all. rewrite qlookup_flushed by reflexivity. rewrite vlookup_flush. apply (v_sp _ _ _ _ _ _ I). }
  split.
  - intros b d n H. rewrite Q. eapply sp_fold_in; eassumption.
  - intros b H. rewrite Q. rewrite sp_fold_notin by exact H. reflexivity.
Qed.

(* misc/e2image.c, the qcow2 writer's L2 table cache: add_l2_item, get_free_table, put_used_table,
   flush_l2_cache.  A bounded number of table buffers is recycled: when none is free all used tables are written
   to the image and their buffers are cleared (memset) and put back.  The reader (lib/ext2fs/qcow2.c) walks the L1
   table and the L2 tables found in the image file.  Offsets of tables and data clusters are chosen by the caller
   (output_qcow2_meta_data_blocks), which hands add_l2_item the data offset of the block and the offset the NEXT
   new table will get. *)
From Coq Require Export List NArith Bool Lia.
Export ListNotations.
Local Open Scope N_scope.

Definition amap := list (N * N).
Fixpoint aget (m : amap) (k : N) : option N :=
  match m with
  | [] => None
  | (k', v) :: r => if k' =? k then Some v else aget r k
  end.

Record tbl := mkT { t_l1 : N; t_off : N; t_data : amap }.      (* one cached L2 table *)
Record wst := mkW {
  w_l1 : amap;                 (* L1 table: l1 index -> offset of the L2 table *)
  w_used : list tbl;           (* used list, MOST RECENT FIRST (the head is cache->used_tail) *)
  w_free : list amap;          (* buffers on the free list (their contents survive unless cleared) *)
  w_next : N;                  (* cache->next_offset *)
  w_file : list (N * amap)     (* L2 tables written to the image: offset -> contents *)
}.

Definition init (capacity : nat) (first_table_offset : N) : wst := mkW [] [] (repeat [] capacity) first_table_offset [].

(* flush_l2_cache: every used table is written at its offset; put_used_table clears the buffer and frees it *)
Definition flush (s : wst) : wst :=
  mkW (w_l1 s) [] (map (fun _ => []) (w_used s) ++ w_free s) (w_next s)
      (map (fun t => (t_off t, t_data t)) (w_used s) ++ w_file s).

(* add_l2_item (blk, data offset, offset of the table after this one) *)
Definition add (l2s : N) (s : wst) (it : N * N * N) : wst :=
  let '(blk, data, next) := it in
  let l1i := blk / l2s in
  let l2i := blk mod l2s in
  let newtab :=
    let s1 := match w_free s with [] => flush s | _ => s end in      (* get_free_table *)
    match w_free s1 with
    | [] => s1
    | d :: fr => mkW ((l1i, w_next s1) :: w_l1 s1) (mkT l1i (w_next s1) ((l2i, data) :: d) :: w_used s1) fr next (w_file s1)
    end in
  match w_used s with
  | t :: r => if t_l1 t =? l1i then mkW (w_l1 s) (mkT (t_l1 t) (t_off t) ((l2i, data) :: t_data t) :: r) (w_free s) (w_next s) (w_file s)
              else newtab
  | [] => newtab
  end.

Definition write_all (l2s : N) (capacity : nat) (first : N) (items : list (N * N * N)) : wst :=
  flush (fold_left (add l2s) items (init capacity first)).

(* the reader: L1 entry, then the L2 table at that offset in the file, then the entry *)
Fixpoint fget (f : list (N * amap)) (off : N) : option amap :=
  match f with
  | [] => None
  | (o, d) :: r => if o =? off then Some d else fget r off
  end.

Definition qlookup (l2s : N) (s : wst) (blk : N) : option N :=
  match aget (w_l1 s) (blk / l2s) with
  | None => None
  | Some off => match fget (w_file s) off with None => None | Some d => aget d (blk mod l2s) end
  end.

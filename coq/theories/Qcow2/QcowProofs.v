From Coq Require Import Arith PeanoNat.
From E2V Require Import Qcow2.QcowIndex.
Local Open Scope N_scope.

Lemma l2_size_pos cb : 0 < l2_size cb.
Proof. unfold l2_size. apply N.neq_0_lt_0. apply N.pow_nonzero. lia. Qed.

Lemma l2_of_mod cb blk : l2_of cb blk = blk mod l2_size cb.
Proof.
  unfold l2_of, l2_size. replace (2 ^ (cb - 3) - 1) with (N.ones (cb - 3)) by (rewrite N.ones_equiv; lia).
  apply N.land_ones.
Qed.

Lemma index_roundtrip_lemma cb blk :
  blk_of cb (l1_of cb blk) (l2_of cb blk) = blk /\ l2_of cb blk < l2_size cb.
Proof.
  pose proof (l2_size_pos cb) as P. rewrite l2_of_mod. unfold blk_of, l1_of. split.
  - rewrite N.mul_comm. symmetry. apply N.div_mod. lia.
  - apply N.mod_lt. lia.
Qed.

Lemma reader_inverse_lemma cb l1 l2 : l2 < l2_size cb ->
  l1_of cb (blk_of cb l1 l2) = l1 /\ l2_of cb (blk_of cb l1 l2) = l2.
Proof.
  intros H. pose proof (l2_size_pos cb) as P. rewrite l2_of_mod. unfold blk_of, l1_of. split.
  - rewrite N.div_add_l by lia. rewrite N.div_small by assumption. lia.
  - rewrite N.add_comm, N.mod_add by lia. apply N.mod_small. assumption.
Qed.

Lemma index_injective_lemma cb b1 b2 :
  l1_of cb b1 = l1_of cb b2 -> l2_of cb b1 = l2_of cb b2 -> b1 = b2.
Proof.
  intros H1 H2. destruct (index_roundtrip_lemma cb b1) as [R1 _]. destruct (index_roundtrip_lemma cb b2) as [R2 _].
  rewrite <- R1, <- R2, H1, H2. reflexivity.
Qed.

Lemma rc_index_lemma cb off : 1 <= cb ->
  cluster_of cb (rc_table_index cb off) (rc_entry cb off) = off / 2 ^ cb /\ rc_entry cb off < 2 ^ (cb - 1).
Proof.
  intros Hc. unfold cluster_of, rc_table_index, rc_entry.
  assert (P : 2 ^ (cb - 1) <> 0) by (apply N.pow_nonzero; lia).
  assert (Q : 2 ^ cb <> 0) by (apply N.pow_nonzero; lia).
  split; [|apply N.mod_lt; assumption].
  rewrite N.shiftr_div_pow2.
  replace (2 * cb - 1) with (cb + (cb - 1)) by lia.
  rewrite N.pow_add_r. rewrite <- N.div_div by assumption.
  rewrite N.mul_comm. symmetry. apply N.div_mod. assumption.
Qed.

Lemma assign_offsets : forall blks cs next b o, In (b, o) (assign cs next blks) ->
  exists k, (k < length blks)%nat /\ nth k blks 0 = b /\ o = next + N.of_nat k * cs.
Proof.
  induction blks as [|x r IH]; intros cs next b o H; cbn [assign] in H; [contradiction|].
  destruct H as [H|H].
  - inversion H; subst. exists O. cbn. split; [lia|]. split; [reflexivity|lia].
  - destruct (IH cs (next + cs) b o H) as (k & K1 & K2 & K3). exists (S k). cbn [length nth]. split; [lia|]. split; [assumption|]. lia.
Qed.

(* distinct blocks get distinct, cluster-aligned-apart data clusters *)
Lemma assign_disjoint_lemma blks cs next b1 o1 b2 o2 : 0 < cs -> NoDup blks ->
  In (b1, o1) (assign cs next blks) -> In (b2, o2) (assign cs next blks) -> b1 <> b2 -> o1 + cs <= o2 \/ o2 + cs <= o1.
Proof.
  intros Hc ND H1 H2 Hne.
  destruct (assign_offsets _ _ _ _ _ H1) as (k1 & A1 & A2 & A3).
  destruct (assign_offsets _ _ _ _ _ H2) as (k2 & B1 & B2 & B3).
  assert (k1 <> k2) by (intro; subst k2; congruence).
  subst o1 o2. destruct (Nat.lt_ge_cases k1 k2); [left|right]; nia.
Qed.

(* e2image -Q: where a filesystem block is recorded in the two-level qcow2 map
   (misc/e2image.c add_l2_item, update_refcount; lib/ext2fs/qcow2.c qcow2_write_raw_image). *)
From Coq Require Export List NArith Bool Lia.
Export ListNotations.
Local Open Scope N_scope.

(* cluster_bits cb = log2 of the filesystem block size; an L2 table is one cluster of 8-byte entries *)
Definition l2_size (cb : N) : N := 2 ^ (cb - 3).
(* writer *)
Definition l1_of (cb blk : N) : N := blk / l2_size cb.
Definition l2_of (cb blk : N) : N := N.land blk (l2_size cb - 1).
(* reader *)
Definition blk_of (cb l1 l2 : N) : N := l1 * l2_size cb + l2.

(* refcounts: 16-bit entries, one refcount block (a cluster) covers 2^(cb-1) clusters = 2^(2cb-1) bytes *)
Definition rc_table_index (cb off : N) : N := N.shiftr off (2 * cb - 1).
Definition rc_entry (cb off : N) : N := (off / 2 ^ cb) mod 2 ^ (cb - 1).
Definition cluster_of (cb ti e : N) : N := ti * 2 ^ (cb - 1) + e.

(* the data clusters of consecutive blocks when nothing else is allocated in between *)
Fixpoint assign (cs next : N) (blks : list N) : list (N * N) :=
  match blks with
  | [] => []
  | b :: r => (b, next) :: assign cs (next + cs) r
  end.

(* C17 - block I/O layer: coherent, durable on flush; bitmap loading partition.
   Statements only. *)
From E2V Require Import IoCache.IoModel IoCache.IoProofs.
Local Open Scope N_scope.

(* Every read of every operation sequence returns the bytes of a flat byte
   array that receives the same writes (cache on/off, direct path, byte
   writes, zeroout, block-size changes, write-through switched on and off at
   any moment - also while dirty blocks are cached -, any cache size >= 1).
   Write-through was excluded from this statement (hypothesis WThru = false)
   until the thorough tier found the sequence of wt_ops below on the real
   code; the hypothesis is gone with the repaired order of the direct write. *)
Theorem read_latest : forall ops bsz n d,
  0 < bsz -> (0 < n)%nat -> wf_ops bsz ops ->
  fst (run (init bsz n d) ops) = fst (sp_run bsz d ops).
Proof.
  exact (fun ops bsz n d Hb Hn W =>
           proj1 (run_refines_bytes ops (init bsz n d) d (init_good bsz n d Hb Hn) W)).
Qed.
Print Assumptions read_latest.

(* ... and from every reachable state a flush makes the backing store equal to
   that array, with no dirty entry left. *)
Theorem flush_durable_reachable : forall ops bsz n d,
  0 < bsz -> (0 < n)%nat -> wf_ops bsz ops ->
  let s := snd (run (init bsz n d) ops) in
  (forall o, dsk (fst (step s Flush)) o = snd (sp_run bsz d ops) o) /\
  (forall e, In e (cache (fst (step s Flush))) -> e_dirty e = false).
Proof.
  exact (fun ops bsz n d Hb Hn W =>
           let G := proj2 (run_refines_bytes ops (init bsz n d) d (init_good bsz n d Hb Hn) W) in
           conj (flush_durable _ _ G) (flush_clean _ _ G)).
Qed.
Print Assumptions flush_durable_reachable.

(* The group ranges handed to the bitmap-loading threads cover every group
   exactly once, for every group count, thread count and flex_bg rounding. *)
Theorem bitmap_threads_partition : forall avg n count g,
  0 < avg -> 2 <= n -> avg * n <= count -> g < count ->
  exists i, i < n /\ in_thread avg n count i g = true /\
            forall j, j < n -> in_thread avg n count j g = true -> j = i.
Proof. exact thread_partition. Qed.
Print Assumptions bitmap_threads_partition.

(* Non-vacuity *)
Definition ex_ops := [Rd 0 1; Wr 0 5 (repeat 17 80); Rd 0 1; WrByte 50 [1;2;3]; Rd 3 1; Zero 2 1; Rd 2 1;
                      CacheOff; Wr 1 1 (repeat 9 16); CacheOn; Rd 1 1; SetBlk 8; Rd 2 3; Flush].
Example ex_wf : wf_ops 16 ex_ops.
Proof. vm_compute. repeat split; reflexivity. Qed.
Example ex_run : fst (run (init 16 8 (fun o => o mod 7)) ex_ops) = fst (sp_run 16 (fun o => o mod 7) ex_ops).
Proof. vm_compute. reflexivity. Qed.

(* the sequence on which the unrepaired unix_write_blk64 lost data: block 1 is cached dirty, write-through is
   switched on, the cache fills up, and a two-block write-through of blocks 0-1 evicts the old copy of block 1 *)
Definition wt_ops := [Wr 1 1 (repeat 77 16); Rd 3 3; WThru true; Rd 2 3; Wr 14 1 (repeat 5 16); Rd 8 2; Wr 0 2 (repeat 9 32); Flush; Rd 0 2].
Example wt_wf : wf_ops 16 wt_ops.
Proof. vm_compute. repeat split; reflexivity. Qed.
Example wt_run : fst (run (init 16 8 (fun o => o mod 7)) wt_ops) = fst (sp_run 16 (fun o => o mod 7) wt_ops) /\
  nth 8 (fst (run (init 16 8 (fun o => o mod 7)) wt_ops)) ROk = RBytes (repeat 9 32).
Proof. vm_compute. split; reflexivity. Qed.

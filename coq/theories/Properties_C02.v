(* C02 - a clean e2fsck verdict: the verdict layer.  Statements only. *)
From E2V Require Import Verdict.Verdict Verdict.VerdictProofs.
Local Open Scope N_scope.

(* If the exit status does not carry "errors left uncorrected", then no code
   path unmarked the filesystem directly and every problem reported - before
   pass 1 as well as in passes 1-5 - was a pure message, was answered yes, or
   is a problem for which "no" is acceptable.  For every sequence of reports,
   over the problem table regenerated from the source. *)
Theorem clean_verdict_means_no_unfixed_problem : forall m p1 p2 d2 ch,
  N.land (exit_status m p1 p2 d2 ch) FSCK_UNCORRECTED = 0 ->
  d2 = false /\ (forall r, In r p1 -> harmless m r) /\ (forall r, In r p2 -> harmless m r).
Proof. exact clean_verdict. Qed.
Print Assumptions clean_verdict_means_no_unfixed_problem.

Theorem clean_verdict_readonly : forall p1 p2 d2 ch,
  N.land (exit_status ModeNo p1 p2 d2 ch) FSCK_UNCORRECTED = 0 ->
  forall code, In (code, None) (p1 ++ p2) ->
  match lookup code table with
  | None => True
  | Some e => p_prompt e = src_PROMPT_NONE \/ has e src_PR_NO_OK = true
  end.
Proof. exact clean_verdict_n. Qed.
Print Assumptions clean_verdict_readonly.

(* the problems that tolerate "no" are exactly reviewed ones (superblock totals,
   time stamps, optimisation offers, housekeeping) *)
Theorem no_ok_problems_are_reviewed :
  forallb (fun e => implb (has e src_PR_NO_OK) (memN (p_code e) frozen_no_ok)) table = true.
Proof. exact no_ok_reviewed. Qed.
Print Assumptions no_ok_problems_are_reviewed.

(* Non-vacuity: PR_0_GDT_CSUM_LATCH (0x00003E? looked up) answered no before pass 1 spoils the verdict *)
Example ex_sb_phase_no :
  exit_status ModeNo [(p_code (nth 0 table (mkP 0 0 0 0)), None)] [] false false = FSCK_UNCORRECTED.
Proof. vm_compute. reflexivity. Qed.

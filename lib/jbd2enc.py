# Independent JBD2 log writer (from the on-disk format, no e2fsprogs code): encodes a list of
# transactions into journal blocks, in the tag/checksum format the journal superblock selects.
import struct

MAGIC = 0xC03B3998
BT_DESC, BT_COMMIT, BT_SBV1, BT_SBV2, BT_REVOKE = 1, 2, 3, 4, 5
F_ESCAPE, F_SAME_UUID, F_DELETED, F_LAST = 1, 2, 4, 8
COMPAT_CHECKSUM = 1
INCOMPAT_REVOKE, INCOMPAT_64BIT, INCOMPAT_ASYNC, INCOMPAT_CSUM2, INCOMPAT_CSUM3, INCOMPAT_FC = 1, 2, 4, 8, 0x10, 0x20

_tab = None


def crc32c(seed, data):
    global _tab
    if _tab is None:
        tab = []
        for i in range(256):
            c = i
            for _ in range(8):
                c = (c >> 1) ^ (0x82F63B78 if c & 1 else 0)
            tab.append(c)
        _tab = tab              # published only when complete (used from worker threads)
    t = _tab
    c = seed
    for b in data:
        c = t[(c ^ b) & 255] ^ (c >> 8)
    return c


_tab_be = None
V1_CHECKSUM = 0x10000        # pseudo feature bit for Cfg: JBD2_FEATURE_COMPAT_CHECKSUM (one crc32 over each transaction's blocks, kept in the commit block)


def crc32_be(seed, data):
    global _tab_be
    if _tab_be is None:
        tab = []
        for i in range(256):
            c = i << 24
            for _ in range(8):
                c = ((c << 1) ^ 0x04C11DB7) & 0xFFFFFFFF if c & 0x80000000 else (c << 1) & 0xFFFFFFFF
            tab.append(c)
        _tab_be = tab
    t = _tab_be
    c = seed
    for b in data:
        c = ((c << 8) & 0xFFFFFFFF) ^ t[((c >> 24) ^ b) & 255]
    return c


class Cfg:
    def __init__(self, bs, first, maxlen, uuid, incompat, seq0, start_rel):
        self.v1 = bool(incompat & V1_CHECKSUM) and not incompat & (INCOMPAT_CSUM2 | INCOMPAT_CSUM3)
        incompat &= 0xFFFF
        self.bs, self.first, self.maxlen, self.uuid, self.incompat = bs, first, maxlen, uuid, incompat
        self.seq0, self.start_rel = seq0, start_rel
        self.len = maxlen - first
        self.csum3 = bool(incompat & INCOMPAT_CSUM3)
        self.csum2 = bool(incompat & INCOMPAT_CSUM2)
        self.csum = self.csum2 or self.csum3
        self.b64 = bool(incompat & INCOMPAT_64BIT)
        self.seed = crc32c(0xFFFFFFFF, uuid)

    def tag_bytes(self):
        if self.csum3:
            return 16
        sz = 12 + (2 if self.csum2 else 0)
        return sz if self.b64 else sz - 4


def header(bt, seq):
    return struct.pack(">III", MAGIC, bt, seq & 0xFFFFFFFF)


def tail_csum(cfg, blk):
    b = bytearray(blk)
    b[-4:] = b"\0\0\0\0"
    return struct.pack(">I", crc32c(cfg.seed, bytes(b)))


def enc_desc(cfg, seq, tags):
    """tags: list of dict(blk, data(bytes, as it should land on the fs), bad_tag_csum=False)
    returns (descriptor block, [log data blocks], [structured tag views])"""
    out = bytearray(header(BT_DESC, seq))
    datas, views = [], []
    for i, t in enumerate(tags):
        data = bytes(t["data"])
        esc = data[:4] == struct.pack(">I", MAGIC)
        logged = (b"\0\0\0\0" + data[4:]) if esc else data
        flags = (F_ESCAPE if esc else 0) | (F_SAME_UUID if i > 0 else 0) | (F_LAST if i == len(tags) - 1 else 0)
        c = crc32c(crc32c(cfg.seed, struct.pack(">I", seq & 0xFFFFFFFF)), logged)
        if t.get("bad_tag_csum"):
            c ^= 0x5A5A5A5A
        blk = t["blk"]
        if cfg.csum3:
            out += struct.pack(">IIII", blk & 0xFFFFFFFF, flags, blk >> 32, c if cfg.csum else 0)
        else:
            out += struct.pack(">IHH", blk & 0xFFFFFFFF, (c & 0xFFFF) if cfg.csum else 0, flags)
            if cfg.b64:
                out += struct.pack(">I", blk >> 32)
            if cfg.csum2:
                out += b"\0\0"
        if i == 0:
            out += cfg.uuid
        datas.append(logged)
        views.append((blk, esc, not (t.get("bad_tag_csum") and cfg.csum)))
    if len(out) > cfg.bs - (4 if cfg.csum else 0):
        raise ValueError("too many tags")
    out += b"\0" * (cfg.bs - len(out))
    if cfg.csum:
        out[-4:] = tail_csum(cfg, out)
    return bytes(out), datas, views


def max_tags(cfg):
    room = cfg.bs - 12 - 16 - (4 if cfg.csum else 0)
    return room // cfg.tag_bytes()


def enc_commit(cfg, seq, time, bad_csum=False, v1_crc=None):
    out = bytearray(header(BT_COMMIT, seq))
    if v1_crc is not None:
        # JBD2_CRC32_CHKSUM = 1, JBD2_CRC32_CHKSUM_SIZE = 4, h_chksum[0]
        out += bytes([1, 4, 0, 0]) + struct.pack(">I", (v1_crc ^ (0x1234567 if bad_csum else 0)) & 0xFFFFFFFF) + b"\0" * 28
        out += struct.pack(">QI", time, 0)
        out += b"\0" * (cfg.bs - len(out))
        return bytes(out)
    out += bytes([4 if cfg.csum else 0, 4 if cfg.csum else 0, 0, 0])
    out += b"\0" * 32
    out += struct.pack(">QI", time, 0)
    out += b"\0" * (cfg.bs - len(out))
    if cfg.csum:
        c = crc32c(cfg.seed, bytes(out))
        if bad_csum:
            c ^= 0x1234567
        out[16:20] = struct.pack(">I", c)
    return bytes(out)


def enc_revoke(cfg, seq, blks):
    rec = 8 if cfg.b64 else 4
    body = b"".join(struct.pack(">Q" if cfg.b64 else ">I", b) for b in blks)
    out = bytearray(header(BT_REVOKE, seq) + struct.pack(">I", 16 + len(body)) + body)
    if len(out) > cfg.bs - (4 if cfg.csum else 0):
        raise ValueError("too many revoke records")
    out += b"\0" * (cfg.bs - len(out))
    if cfg.csum:
        out[-4:] = tail_csum(cfg, out)
    return bytes(out)


def max_revokes(cfg):
    return (cfg.bs - 16 - (4 if cfg.csum else 0)) // (8 if cfg.b64 else 4)


def encode_log(cfg, txns):
    """txns: list of dict(seq, items=[('D', tags) | ('R', blks)], commit=dict(time, bad_csum, missing))
    returns dict rel_index -> (bytes, view) in log order starting at cfg.start_rel, wrapping; view is the
    structured description handed to the model."""
    pos = cfg.start_rel
    out = {}

    def put(b, view):
        nonlocal pos
        if pos in out:
            raise ValueError("log overflow")
        out[pos] = (b, view)
        pos = pos + 1
        if pos >= cfg.len:
            pos -= cfg.len
    for x in txns:
        seq = x["seq"]
        crc1 = 0xFFFFFFFF
        for kind, payload in x["items"]:
            if kind == "D":
                d, datas, views = enc_desc(cfg, seq, payload)
                if cfg.v1:
                    crc1 = crc32_be(crc1, d)
                    for dd in datas:
                        crc1 = crc32_be(crc1, dd)
                if x.get("bad_desc_csum") and cfg.csum:
                    d = d[:-4] + bytes([d[-4] ^ 0xFF]) + d[-3:]
                put(d, "D %d %d %s" % (seq, 0 if (x.get("bad_desc_csum") and cfg.csum) else 1,
                                       " ".join("%d:%d:%d" % (b, 1 if e else 0, 1 if ok else 0) for b, e, ok in views)))
                for dd in datas:
                    put(dd, "X " + dd.hex())
            else:
                put(enc_revoke(cfg, seq, payload), "R %d 1 %s" % (seq, ",".join(str(b) for b in payload)))
        c = x.get("commit")
        if c and not c.get("missing"):
            bad = bool(c.get("bad_csum")) and (cfg.csum or cfg.v1)
            put(enc_commit(cfg, seq, c["time"], bad, v1_crc=crc1 if cfg.v1 else None), "C %d %d %d" % (seq, 0 if bad else 1, c["time"]))
    return out, pos

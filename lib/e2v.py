# Shared machinery for the /verif checks: scratch build of /repo, Coq build,
# extraction, evidence and replay writers, known findings.
import fcntl, hashlib, json, os, random, re, shutil, subprocess, sys, time

VERIF = os.path.dirname(os.path.dirname(os.path.abspath(__file__)))
REPO = os.environ.get("E2V_REPO", "/repo")
SCRATCH = os.environ.get("E2V_SCRATCH", "/var/tmp/e2v")
COQ = os.path.join(VERIF, "coq")
HARNESS = os.path.join(VERIF, "harness")
GUARD = "E2FSPROGS_VERIF"


def log(*a):
    print("[e2v]", *a, file=sys.stderr, flush=True)


def sh(cmd, cwd=None, timeout=None, env=None, check=False, input=None):
    """Run a command, return (rc, stdout+stderr). Timeout kills with SIGKILL."""
    e = dict(os.environ)
    if env:
        e.update(env)
    p = subprocess.Popen(cmd, cwd=cwd, env=e, shell=isinstance(cmd, str),
                         stdin=subprocess.PIPE if input is not None else subprocess.DEVNULL,
                         stdout=subprocess.PIPE, stderr=subprocess.STDOUT,
                         start_new_session=True)
    try:
        out, _ = p.communicate(input=input, timeout=timeout)
        rc = p.returncode
    except subprocess.TimeoutExpired:
        try:
            os.killpg(p.pid, 9)
        except Exception:
            pass
        out, _ = p.communicate()
        rc = -9
    out = out.decode("utf-8", "replace") if isinstance(out, bytes) else out
    if check and rc != 0:
        raise RuntimeError("command failed (%s): %s\n%s" % (rc, cmd, out[-4000:]))
    return rc, out


# --------------------------------------------------------------------------
# scratch build of the implementation under test

class Lock:
    def __init__(self, path):
        os.makedirs(os.path.dirname(path), exist_ok=True)
        self.f = open(path, "w")

    def __enter__(self):
        fcntl.flock(self.f, fcntl.LOCK_EX)
        return self

    def __exit__(self, *a):
        fcntl.flock(self.f, fcntl.LOCK_UN)
        self.f.close()


def repo_files():
    rc, out = sh(["git", "-C", REPO, "ls-files", "-co", "--exclude-standard"], check=True)
    return [l for l in out.split("\n") if l and os.path.isfile(os.path.join(REPO, l))]


def tree_key(files=None):
    """Hash of the working tree's source files (content)."""
    files = files or repo_files()
    h = hashlib.sha256()
    for f in sorted(files):
        if f.startswith("tests/") and not f.startswith("tests/progs"):
            continue
        p = os.path.join(REPO, f)
        try:
            st = os.stat(p)
        except OSError:
            continue
        h.update(f.encode())
        with open(p, "rb") as fh:
            h.update(hashlib.sha256(fh.read()).digest())
    return h.hexdigest()[:16]


def ensure_build(variant="std"):
    """Build /repo's current working tree in a scratch dir; returns build root.
    variant: std (-O1 -g, guard on), asan."""
    root = os.path.join(SCRATCH, variant)
    src = os.path.join(root, "src")
    os.makedirs(root, exist_ok=True)
    with Lock(os.path.join(SCRATCH, variant + ".lock")):
        files = repo_files()
        key = tree_key(files)
        keyf = os.path.join(root, "KEY")
        if os.path.exists(keyf) and open(keyf).read().strip() == key and \
                os.path.exists(os.path.join(src, "e2fsck", "e2fsck")):
            return src
        t0 = time.time()
        os.makedirs(src, exist_ok=True)
        lst = os.path.join(root, "files.lst")
        with open(lst, "w") as f:
            f.write("\n".join(files) + "\n")
        # remove files that disappeared from the tree
        old = os.path.join(root, "files.old")
        if os.path.exists(old):
            gone = set(open(old).read().split("\n")) - set(files)
            for g in gone:
                if g:
                    try:
                        os.unlink(os.path.join(src, g))
                    except OSError:
                        pass
        # files that vanish between the listing and the copy (a build or test run in /repo) are not part of the tree
        rc, out = sh(["rsync", "-a", "--checksum", "--ignore-missing-args", "--files-from=" + lst, REPO + "/", src + "/"])
        if rc not in (0, 23, 24):
            raise RuntimeError("rsync of /repo failed (%s): %s" % (rc, out[-2000:]))
        shutil.copy(lst, old)
        cflags = "-O1 -g -D%s" % GUARD
        ldflags = ""
        if variant == "asan":
            # memory-safety instrumentation only: AddressSanitizer plus the UBSan checks that concern bounds and null;
            # alignment, shift and signed-overflow reports are not memory-safety violations
            san = "address,bounds,null,unreachable,vla-bound"
            cflags = "-O1 -g -fsanitize=%s -fno-sanitize-recover=bounds,null,unreachable,vla-bound -fno-omit-frame-pointer -D%s" % (san, GUARD)
            ldflags = "-fsanitize=%s" % san
        if variant == "tsan":
            cflags = "-O1 -g -fsanitize=thread -fno-omit-frame-pointer -D%s" % GUARD
            ldflags = "-fsanitize=thread"
        if not os.path.exists(os.path.join(src, "config.status")):
            rc, out = sh("./configure --disable-nls --disable-fuse2fs CFLAGS='%s' LDFLAGS='%s' >configure.out 2>&1" % (cflags, ldflags),
                         cwd=src, timeout=600)
            if rc != 0:
                raise RuntimeError("configure failed in " + src)
        rc, out = sh("make -j16 >make.out 2>&1", cwd=src, timeout=1800)
        if rc != 0:
            # one retry from clean (stale objects after file removal etc.)
            sh("make clean >/dev/null 2>&1", cwd=src, timeout=600)
            rc, out = sh("make -j16 >make.out 2>&1", cwd=src, timeout=1800)
        if rc != 0:
            if os.path.exists(keyf):
                os.unlink(keyf)
            tail = open(os.path.join(src, "make.out"), errors="replace").read()[-3000:]
            raise RuntimeError("scratch build of /repo failed:\n" + tail)
        with open(keyf, "w") as f:
            f.write(key)
        log("built %s variant of /repo working tree in %.1fs (key %s)" % (variant, time.time() - t0, key))
        return src


def build_iotrace():
    """the LD_PRELOAD write-trace shim; returns path of the shared object"""
    out = os.path.join(SCRATCH, "iotrace.so")
    srcf = os.path.join(HARNESS, "iotrace.c")
    if os.path.exists(out) and os.path.getmtime(out) >= os.path.getmtime(srcf):
        return out
    os.makedirs(SCRATCH, exist_ok=True)
    rc, o = sh("gcc -O1 -shared -fPIC -o %s %s -ldl" % (out, srcf), timeout=120)
    if rc != 0:
        raise RuntimeError("iotrace build failed: " + o[-2000:])
    return out


def read_iotrace(path):
    """returns list of events: ('W', off, data) | ('F',) | ('T', len) | ('O', flags) | ('C',) | ('A', off, len)"""
    ev = []
    if not os.path.exists(path):
        return ev
    d = open(path, "rb").read()
    i = 0
    while i + 17 <= len(d):
        op = chr(d[i])
        off = int.from_bytes(d[i + 1:i + 9], "little")
        ln = int.from_bytes(d[i + 9:i + 17], "little")
        i += 17
        if op in "Ww":
            ev.append((op, off, d[i:i + ln]))
            i += ln
        elif op in "ftoca":
            # records of the second watched file keep their lower-case letter
            ev.append({"f": ("f",), "t": ("t", off), "o": ("o", off), "c": ("c",), "a": ("a", off, ln)}[op])
        elif op == "F":
            ev.append(("F",))
        elif op == "T":
            ev.append(("T", off))
        elif op == "O":
            ev.append(("O", off))
        elif op == "C":
            ev.append(("C",))
        elif op == "A":
            ev.append(("A", off, ln))
    return ev


def traced(cmd, watch, log, env=None, timeout=300, fail_at=None, kill_at=None, input=None, watch2=None):
    """run cmd with the write-trace shim watching file [watch] (and [watch2]: lower-case events)"""
    so = build_iotrace()
    if os.path.exists(log):
        os.unlink(log)
    e = dict(env or {})
    e.update({"LD_PRELOAD": so, "IOTRACE_PATH": watch, "IOTRACE_LOG": log})
    if watch2:
        e["IOTRACE_PATH2"] = watch2
    if fail_at:
        e["IOTRACE_FAIL_AT"] = str(fail_at)
    if kill_at:
        e["IOTRACE_KILL_AT"] = str(kill_at)
    rc, out = sh(cmd, env=e, timeout=timeout, input=input)
    return rc, out, read_iotrace(log)


def tool_env(src, **extra):
    """environment for running the scratch tools: the tree's own mke2fs.conf, no user config"""
    e = {"MKE2FS_CONFIG": os.path.join(src, "misc", "mke2fs.conf"), "E2FSCK_CONFIG": "/dev/null",
         "MKE2FS_FIRST_META_BG": "", "LC_ALL": "C", "TZ": "UTC"}
    e.pop("MKE2FS_FIRST_META_BG")
    e.update(extra)
    return e


def build_harness(name, src, variant="std", extra_src=(), libs=None):
    """Compile harness/<name>.c against the scratch tree; returns path of binary."""
    out = os.path.join(SCRATCH, variant, "bin")
    os.makedirs(out, exist_ok=True)
    exe = os.path.join(out, name)
    csrc = [os.path.join(HARNESS, name + ".c")] + [os.path.join(HARNESS, x) for x in extra_src]
    keyf = os.path.join(SCRATCH, variant, "KEY")
    dep_m = max([os.path.getmtime(c) for c in csrc] + [os.path.getmtime(keyf)])
    if os.path.exists(exe) and os.path.getmtime(exe) >= dep_m:
        return exe
    san = {"asan": "-fsanitize=address,bounds,null", "tsan": "-fsanitize=thread"}.get(variant, "")
    if libs is None:
        libs = ["lib/libsupport.a", "lib/libext2fs.a", "lib/libe2p.a", "lib/libcom_err.a", "lib/libuuid.a", "lib/libblkid.a"]
    libs = [os.path.join(src, l) for l in libs if os.path.exists(os.path.join(src, l))]
    cmd = "gcc -O1 -g %s -D%s -DHAVE_CONFIG_H -I%s/lib -I%s/lib/ext2fs -I%s -I%s/e2fsck -o %s %s %s -lpthread -lm" % (
        san, GUARD, src, src, src, src, exe, " ".join(csrc), " ".join(libs))
    rc, o = sh(cmd, timeout=300)
    if rc != 0:
        raise RuntimeError("harness build failed: %s\n%s" % (cmd, o[-3000:]))
    return exe


# --------------------------------------------------------------------------
# Coq

def coq_makefile():
    mk = os.path.join(COQ, "Makefile.coq")
    cp = os.path.join(COQ, "_CoqProject")
    if not os.path.exists(mk) or os.path.getmtime(mk) < os.path.getmtime(cp):
        sh(["coq_makefile", "-f", "_CoqProject", "-o", "Makefile.coq"], cwd=COQ, check=True)
    return mk


def coq_build(targets, timeout=1500):
    """Full .vo build of the given targets (paths relative to coq/).
    Returns dict(ok, log, failed_file)."""
    with Lock(os.path.join(SCRATCH, "coq.lock")):
        coq_makefile()
        t0 = time.time()
        rc, out = sh(["make", "-f", "Makefile.coq", "-k", "-j16"] + list(targets), cwd=COQ, timeout=timeout)
        return {"ok": rc == 0, "log": out, "wall": time.time() - t0, "rc": rc}


def parse_assumptions(logtext):
    """Parse the output of `Print Assumptions` commands produced while compiling a
    Properties file. Returns list of (closed:bool, text)."""
    res = []
    lines = logtext.split("\n")
    i = 0
    while i < len(lines):
        l = lines[i]
        if l.startswith("Closed under the global context"):
            res.append((True, l.strip()))
        elif l.startswith("Axioms:"):
            blk = [l]
            i += 1
            while i < len(lines) and (lines[i].startswith(" ") or lines[i].strip() == "" and False):
                blk.append(lines[i])
                i += 1
            res.append((False, "\n".join(blk)))
            continue
        i += 1
    return res


def theorems_in(vfile):
    txt = open(vfile).read()
    return re.findall(r"^(?:Theorem|Example|Corollary)\s+([A-Za-z0-9_']+)", txt, re.M)


def coq_property(pid, extra_targets=()):
    """Re-check theories/Properties_<pid>.v from scratch (the .vo is removed so that
    Print Assumptions output is produced on every run). Returns a dict."""
    vo = "theories/Properties_%s.vo" % pid
    vfile = os.path.join(COQ, "theories", "Properties_%s.v" % pid)
    for ext in (".vo", ".glob", ".vos", ".vok"):
        p = os.path.join(COQ, "theories", "Properties_%s%s" % (pid, ext))
        if os.path.exists(p):
            os.unlink(p)
    r = coq_build([vo] + list(extra_targets))
    thms = theorems_in(vfile)
    ass = parse_assumptions(r["log"])
    bad = scan_forbidden()
    failed = None
    if not r["ok"]:
        m = re.findall(r'File "\./([^"]+)", line (\d+)', r["log"])
        failed = m[0] if m else ("?", "?")
    n_th = len([t for t in thms])
    return {"ok": r["ok"] and not bad, "theorems": thms, "assumptions": ass,
            "obligations": n_th, "discharged": n_th if r["ok"] and not bad else 0,
            "forbidden": bad, "failed_at": failed, "log_tail": r["log"][-3000:], "wall": r["wall"],
            "checker_cmd": "make -f Makefile.coq -k -j16 %s (coqc 8.16.1, full .vo)" % vo}


FORBID = re.compile(r"\b(Admitted|admit|Axiom|Axioms|Parameter|Parameters|Conjecture|Admit Obligations|Unset Guard Checking|Unset Positivity Checking|Unset Universe Checking|bypass_check|type-in-type|impredicative-set)\b")


def scan_forbidden():
    bad = []
    for d, _, fs in os.walk(os.path.join(COQ, "theories")):
        for f in fs:
            if not f.endswith(".v"):
                continue
            p = os.path.join(d, f)
            txt = open(p).read()
            txt2 = re.sub(r"\(\*.*?\*\)", "", txt, flags=re.S)
            for m in FORBID.finditer(txt2):
                bad.append("%s: %s" % (os.path.relpath(p, COQ), m.group(1)))
    cp = open(os.path.join(COQ, "_CoqProject")).read()
    if "type-in-type" in cp or "impredicative-set" in cp:
        bad.append("_CoqProject: forbidden flag")
    return bad


def write_if_changed(path, content):
    if os.path.exists(path) and open(path).read() == content:
        return False
    os.makedirs(os.path.dirname(path), exist_ok=True)
    with open(path, "w") as f:
        f.write(content)
    return True


# --------------------------------------------------------------------------
# extraction: OCaml model drivers

def build_driver(name, vo_targets, ml_modules):
    """extract/<name>.v extracts into extract/out/; drivers/<name>_main.ml is the
    line-protocol front end.  Returns path to the native executable."""
    ex = os.path.join(VERIF, "extract")
    outd = os.path.join(ex, "out", name)
    os.makedirs(outd, exist_ok=True)
    exe = os.path.join(outd, name + ".exe")
    r = coq_build(vo_targets)
    if not r["ok"]:
        raise RuntimeError("coq build for extraction failed:\n" + r["log"][-3000:])
    vsrc = os.path.join(ex, name + ".v")
    main = os.path.join(ex, "drivers", name + "_main.ml")
    deps = [vsrc, main] + [os.path.join(COQ, t) for t in vo_targets]
    if os.path.exists(exe) and os.path.getmtime(exe) >= max(os.path.getmtime(d) for d in deps):
        return exe
    with Lock(os.path.join(SCRATCH, "extract-%s.lock" % name)):
        rc, out = sh(["coqc", "-Q", os.path.join(COQ, "theories"), "E2V", vsrc], cwd=outd, timeout=600)
        if rc != 0:
            raise RuntimeError("extraction failed:\n" + out[-3000:])
        shutil.copy(main, os.path.join(outd, "main.ml"))
        srcs = []
        for m in ml_modules:
            srcs += [m + ".mli", m + ".ml"]
        rc, out = sh(["ocamlfind", "ocamlopt", "-O3", "-w", "-a", "-o", exe] + srcs + ["main.ml"], cwd=outd, timeout=600)
        if rc != 0:
            rc, out = sh(["ocamlfind", "ocamlopt", "-w", "-a", "-o", exe] + srcs + ["main.ml"], cwd=outd, timeout=600)
        if rc != 0:
            raise RuntimeError("ocaml build failed:\n" + out[-3000:])
    return exe


# --------------------------------------------------------------------------
# evidence, replays, known findings

def known_findings():
    p = os.path.join(VERIF, "known_findings.json")
    if not os.path.exists(p):
        return []
    return json.load(open(p))["findings"]


def write_replay(pid, kind, payload):
    d = os.path.join(VERIF, "replays")
    os.makedirs(d, exist_ok=True)
    body = dict(property=pid, kind=kind)
    body.update(payload)
    s = json.dumps(body, indent=1, sort_keys=True, default=str)
    name = "%s-%s.json" % (pid, hashlib.sha256(s.encode()).hexdigest()[:12])
    with open(os.path.join(d, name), "w") as f:
        f.write(s)
    return os.path.join("replays", name)


class Result:
    """Collects what a check run did; writes the evidence file and prints verdict lines."""

    def __init__(self, pid, tier, seed):
        self.pid, self.tier, self.seed = pid, tier, seed
        self.t0 = time.time()
        self.cov = {"obligations": 0, "discharged": 0, "checker_cmd": "", "trusted_base": [],
                    "evaluations": 0, "distinct_nontrivial": 0, "rule": "", "samples": [],
                    "theorems": [], "assumptions_printed": [], "correspondence": {}, "oracle": {},
                    "partial": [], "generated_tables": {}}
        self.assumptions = []
        self.violations = []   # (replay_path, has_input)
        self.known = []
        self._seen = set()
        # replays of earlier runs of this property are stale once it is re-run
        d = os.path.join(VERIF, "replays")
        if os.path.isdir(d) and not os.environ.get("E2V_KEEP_REPLAYS"):
            for f in os.listdir(d):
                if f.startswith(pid + "-"):
                    os.unlink(os.path.join(d, f))

    def add_proof(self, pr):
        c = self.cov
        c["obligations"] += pr["obligations"]
        c["discharged"] += pr["discharged"]
        c["checker_cmd"] = pr["checker_cmd"]
        c["theorems"] += pr["theorems"]
        c["assumptions_printed"] += [a[1] for a in pr["assumptions"]]
        if pr["forbidden"]:
            c["forbidden_constructs"] = pr["forbidden"]

    def add_obligation(self, name, ok):
        self.cov["obligations"] += 1
        if ok:
            self.cov["discharged"] += 1
        self.cov.setdefault("extra_obligations", []).append({"name": name, "ok": bool(ok)})

    def case(self, canon, nontrivial):
        self.cov["evaluations"] += 1
        if nontrivial:
            h = hashlib.sha256(canon.encode() if isinstance(canon, str) else canon).digest()[:12]
            if h not in self._seen:
                self._seen.add(h)
                self.cov["distinct_nontrivial"] += 1

    def sample(self, s, limit=4):
        if len(self.cov["samples"]) < limit:
            self.cov["samples"].append(s)

    def violation(self, kind, payload, has_input=True, signature=None):
        # known finding?
        if signature:
            for k in known_findings():
                if k["property"] == self.pid and k.get("status") == "known" and k["signature"] == signature:
                    if signature not in [x for x in self.known]:
                        self.known.append(signature)
                        print("KNOWN-FINDING: property=%s %s" % (self.pid, k["what"]), flush=True)
                    return
        if len(self.violations) >= 5:
            self.violations.append((None, has_input))
            return
        payload = dict(payload)
        payload["seed"] = self.seed
        payload["tier"] = self.tier
        if signature:
            payload["signature"] = signature
        path = write_replay(self.pid, kind, payload)
        self.violations.append((path, has_input))
        print("VIOLATION property=%s replay=%s%s" % (self.pid, path, "" if has_input else " no-failing-input-found"), flush=True)

    def finish(self):
        ev = {"property_id": self.pid, "tier": self.tier, "seed": self.seed, "level": "proof",
              "coverage": self.cov, "assumptions": self.assumptions,
              "wall_s": round(time.time() - self.t0, 2), "violations": len(self.violations)}
        if not self.cov["samples"]:
            self.cov["samples"] = ["(no cases run)"]
        d = os.path.join(VERIF, "evidence")
        os.makedirs(d, exist_ok=True)
        with open(os.path.join(d, self.pid + ".json"), "w") as f:
            json.dump(ev, f, indent=1, default=str)
        if self.violations:
            return 1
        if self.cov["obligations"] != self.cov["discharged"]:
            # should have been turned into a violation by the caller
            print("VIOLATION property=%s replay=%s no-failing-input-found" % (
                self.pid, write_replay(self.pid, "proof", {"note": "undischarged obligations", "coverage": self.cov.get("extra_obligations")})), flush=True)
            return 1
        return 0


def rng(seed, *salt):
    return random.Random("%s/%s" % (seed, "/".join(str(s) for s in salt)))


TRUSTED_COMMON = [
    "Coq 8.16.1 kernel incl. vm_compute (no native_compute)",
    "no axioms declared; Print Assumptions output copied in assumptions_printed",
    "Extraction with ExtrOcamlBasic directives only (bool option unit list prod sumbool -> OCaml natives); OCaml 4.13.1",
    "hand-written Gallina model of the C code; tie = differential execution of extracted model vs scratch build of /repo working tree",
    "python3 orchestration (/verif/check, /verif/lib, /verif/props), C harnesses in /verif/harness, gcc",
]

# Independent reading of the ext2/3/4 on-disk format (no libext2fs code involved).
# Used by the tool-level checks as the "independent reader"; the decision cores it
# feeds (checksums, backup locations, bitmap/count agreement, ...) are Coq functions.
import struct

# feature bits
COMPAT_DIR_PREALLOC, COMPAT_HAS_JOURNAL, COMPAT_EXT_ATTR, COMPAT_RESIZE_INODE, COMPAT_DIR_INDEX = 0x1, 0x4, 0x8, 0x10, 0x20
COMPAT_SPARSE_SUPER2, COMPAT_ORPHAN_FILE = 0x200, 0x1000
INCOMPAT_FILETYPE, INCOMPAT_RECOVER, INCOMPAT_JOURNAL_DEV, INCOMPAT_META_BG = 0x2, 0x4, 0x8, 0x10
INCOMPAT_EXTENTS, INCOMPAT_64BIT, INCOMPAT_MMP, INCOMPAT_FLEX_BG = 0x40, 0x80, 0x100, 0x200
INCOMPAT_EA_INODE, INCOMPAT_CSUM_SEED, INCOMPAT_INLINE_DATA = 0x400, 0x2000, 0x8000
RO_SPARSE_SUPER, RO_LARGE_FILE, RO_HUGE_FILE, RO_GDT_CSUM, RO_DIR_NLINK, RO_EXTRA_ISIZE = 0x1, 0x2, 0x8, 0x10, 0x20, 0x40
RO_QUOTA, RO_BIGALLOC, RO_METADATA_CSUM, RO_PROJECT = 0x100, 0x200, 0x400, 0x2000

BG_INODE_UNINIT, BG_BLOCK_UNINIT, BG_INODE_ZEROED = 1, 2, 4
EXTENTS_FL, INDEX_FL, INLINE_DATA_FL, EA_INODE_FL, HUGE_FILE_FL = 0x80000, 0x1000, 0x10000000, 0x200000, 0x40000


class FormatError(Exception):
    pass


class Fs:
    def __init__(self, path=None, data=None, offset=0):
        self.d = data if data is not None else open(path, "rb").read()
        self.off = offset
        sb = self.d[offset + 1024:offset + 2048]
        if len(sb) < 1024:
            raise FormatError("short superblock")
        self.sb_raw = sb
        u32 = lambda o: struct.unpack_from("<I", sb, o)[0]
        u16 = lambda o: struct.unpack_from("<H", sb, o)[0]
        self.magic = u16(0x38)
        if self.magic != 0xEF53:
            raise FormatError("bad magic")
        self.inodes_count = u32(0)
        self.first_data_block = u32(0x14)
        self.log_block_size = u32(0x18)
        self.log_cluster_size = u32(0x1C)
        self.blocks_per_group = u32(0x20)
        self.clusters_per_group = u32(0x24)
        self.inodes_per_group = u32(0x28)
        self.state = u16(0x3A)
        self.rev = u32(0x4C)
        self.first_ino = u32(0x54) if self.rev >= 1 else 11
        self.inode_size = u16(0x58) if self.rev >= 1 else 128
        self.block_group_nr = u16(0x5A)
        self.compat, self.incompat, self.ro_compat = u32(0x5C), u32(0x60), u32(0x64)
        self.uuid = sb[0x68:0x78]
        self.reserved_gdt = u16(0xCE)
        self.journal_inum = u32(0xE0)
        self.desc_size = u16(0xFE) if self.incompat & INCOMPAT_64BIT else 32
        if self.incompat & INCOMPAT_64BIT and self.desc_size < 32:
            raise FormatError("bad desc size")
        self.first_meta_bg = u32(0x104)
        self.log_groups_per_flex = sb[0x174]
        self.blocks_count = u32(4) | ((u32(0x150) << 32) if self.incompat & INCOMPAT_64BIT else 0)
        self.free_blocks = u32(0xC) | ((u32(0x158) << 32) if self.incompat & INCOMPAT_64BIT else 0)
        self.free_inodes = u32(0x10)
        self.backup_bgs = (u32(0x24C), u32(0x250))
        self.checksum_seed = u32(0x270)
        self.sb_checksum = u32(0x3FC)
        self.mmp_block = struct.unpack_from("<Q", sb, 0x168)[0]
        self.bs = 1024 << self.log_block_size
        if self.log_block_size > 6 or self.blocks_per_group == 0 or self.inodes_per_group == 0:
            raise FormatError("bad geometry")
        self.cluster_ratio = 1 << (self.log_cluster_size - self.log_block_size) if self.ro_compat & RO_BIGALLOC else 1
        self.groups_count = (self.blocks_count - self.first_data_block + self.blocks_per_group - 1) // self.blocks_per_group
        self.desc_per_block = self.bs // self.desc_size
        self.desc_blocks = (self.groups_count + self.desc_per_block - 1) // self.desc_per_block
        self.itb_per_group = (self.inodes_per_group * self.inode_size + self.bs - 1) // self.bs
        self.has_csum = bool(self.ro_compat & RO_METADATA_CSUM)
        self.has_gdt_csum = bool(self.ro_compat & RO_GDT_CSUM)
        self.groups = [self._read_gd(g) for g in range(self.groups_count)]

    # ---- raw access
    def block(self, n, count=1):
        a = self.off + n * self.bs
        b = self.d[a:a + count * self.bs]
        if len(b) != count * self.bs:
            raise FormatError("block %d out of range" % n)
        return b

    def group_first_block(self, g):
        return self.first_data_block + g * self.blocks_per_group

    # ---- which groups carry a superblock backup (format definition)
    def bg_has_super(self, g):
        if g == 0:
            return True
        if self.compat & COMPAT_SPARSE_SUPER2:
            return g in self.backup_bgs and g != 0
        if g <= 1 or not (self.ro_compat & RO_SPARSE_SUPER):
            return True
        if g % 2 == 0:
            return False
        for b in (3, 5, 7):
            x = b
            while x < g:
                x *= b
            if x == g:
                return True
        return False

    def desc_block_loc(self, i):
        """block holding descriptor block i of the primary table"""
        if not (self.incompat & INCOMPAT_META_BG) or i < self.first_meta_bg:
            return self.first_data_block + 1 + i
        g = i * self.desc_per_block
        return self.group_first_block(g) + (1 if self.bg_has_super(g) else 0)

    def gd_raw(self, g):
        blk = self.block(self.desc_block_loc(g // self.desc_per_block))
        o = (g % self.desc_per_block) * self.desc_size
        return blk[o:o + self.desc_size]

    def _read_gd(self, g):
        r = self.gd_raw(g)
        lo = struct.unpack_from("<IIIHHHHIHHHH", r, 0)
        d = dict(block_bitmap=lo[0], inode_bitmap=lo[1], inode_table=lo[2], free_blocks=lo[3], free_inodes=lo[4],
                 used_dirs=lo[5], flags=lo[6], exclude_bitmap=lo[7], bb_csum=lo[8], ib_csum=lo[9],
                 itable_unused=lo[10], checksum=lo[11], raw=r)
        if self.desc_size >= 64:
            hi = struct.unpack_from("<IIIHHHHIHH", r, 32)
            d["block_bitmap"] |= hi[0] << 32
            d["inode_bitmap"] |= hi[1] << 32
            d["inode_table"] |= hi[2] << 32
            d["free_blocks"] |= hi[3] << 16
            d["free_inodes"] |= hi[4] << 16
            d["used_dirs"] |= hi[5] << 16
            d["itable_unused"] |= hi[6] << 16
            d["bb_csum"] |= hi[8] << 16
            d["ib_csum"] |= hi[9] << 16
        return d

    # ---- inodes
    def inode_loc(self, ino):
        if ino < 1 or ino > self.inodes_count:
            raise FormatError("inode %d out of range" % ino)
        g, i = divmod(ino - 1, self.inodes_per_group)
        return self.off + self.groups[g]["inode_table"] * self.bs + i * self.inode_size

    def inode_raw(self, ino):
        a = self.inode_loc(ino)
        r = self.d[a:a + self.inode_size]
        if len(r) != self.inode_size:
            raise FormatError("inode table out of range")
        return r

    def inode(self, ino):
        r = self.inode_raw(ino)
        f = struct.unpack_from("<HHIIIIIHHII", r, 0)
        d = dict(ino=ino, mode=f[0], uid=f[1], size=f[2], atime=f[3], ctime=f[4], mtime=f[5], dtime=f[6], gid=f[7],
                 links=f[8], blocks=f[9], flags=f[10], raw=r, i_block=r[40:100])
        d["generation"], d["file_acl"], size_hi = struct.unpack_from("<III", r, 100)
        d["size"] |= size_hi << 32
        blocks_hi, acl_hi, uid_hi, gid_hi, csum_lo = struct.unpack_from("<HHHHH", r, 116)
        d["blocks"] |= blocks_hi << 32
        d["file_acl"] |= acl_hi << 32
        d["uid"] |= uid_hi << 16
        d["gid"] |= gid_hi << 16
        d["csum_lo"] = csum_lo
        d["extra_isize"] = struct.unpack_from("<H", r, 128)[0] if self.inode_size > 128 else 0
        d["csum_hi"] = struct.unpack_from("<H", r, 130)[0] if self.inode_size > 128 and d["extra_isize"] >= 4 else None
        return d

    def inode_bitmap_bit(self, ino):
        g, i = divmod(ino - 1, self.inodes_per_group)
        gd = self.groups[g]
        if gd["flags"] & BG_INODE_UNINIT and self.has_group_csum():
            return False
        b = self.block(gd["inode_bitmap"])
        return bool(b[i >> 3] >> (i & 7) & 1)

    def has_group_csum(self):
        return self.has_csum or self.has_gdt_csum

    def in_use_inodes(self):
        out = []
        for g, gd in enumerate(self.groups):
            if gd["flags"] & BG_INODE_UNINIT and self.has_group_csum():
                continue
            b = self.block(gd["inode_bitmap"])
            for i in range(self.inodes_per_group):
                if b[i >> 3] >> (i & 7) & 1:
                    out.append(g * self.inodes_per_group + i + 1)
        return out

    # ---- block mapping
    def extent_tree(self, ino, inode=None):
        """returns (extents [(lblk, pblk, len, uninit)], nodes [(pblk, bytes, depth)])"""
        inode = inode or self.inode(ino)
        exts, nodes = [], []

        def walk(buf, depth_expect, pblk):
            magic, entries, mx, depth, gen = struct.unpack_from("<HHHHI", buf, 0)
            if magic != 0xF30A:
                raise FormatError("bad extent magic in inode %d" % ino)
            if depth_expect is not None and depth != depth_expect:
                raise FormatError("extent depth mismatch in inode %d" % ino)
            if depth > 5 or entries > mx or 12 + 12 * mx > len(buf):
                raise FormatError("bad extent header in inode %d" % ino)
            for i in range(entries):
                o = 12 + 12 * i
                if depth == 0:
                    lblk, ln, hi, lo = struct.unpack_from("<IHHI", buf, o)
                    un = ln > 32768
                    exts.append((lblk, (hi << 32) | lo, ln - 32768 if un else ln, un))
                else:
                    lblk, lo, hi, _ = struct.unpack_from("<IIHH", buf, o)
                    p = (hi << 32) | lo
                    if len(nodes) > 100000:
                        raise FormatError("extent tree too large")
                    child = self.block(p)
                    nodes.append((p, child, depth - 1))
                    walk(child, depth - 1, p)
        walk(inode["i_block"], None, None)
        return exts, nodes

    def ind_blocks(self, ino, inode=None):
        """block-mapped file: returns (map lblk->pblk, [indirect blocks])"""
        inode = inode or self.inode(ino)
        ib = struct.unpack_from("<15I", inode["i_block"], 0)
        per = self.bs // 4
        m, meta = {}, []
        for i in range(12):
            if ib[i]:
                m[i] = ib[i]

        def walk(blk, level, base):
            if not blk:
                return
            meta.append(blk)
            ptrs = struct.unpack_from("<%dI" % per, self.block(blk), 0)
            span = per ** (level - 1)
            for i, p in enumerate(ptrs):
                if not p:
                    continue
                if level == 1:
                    m[base + i] = p
                else:
                    walk(p, level - 1, base + i * span)
        walk(ib[12], 1, 12)
        walk(ib[13], 2, 12 + per)
        walk(ib[14], 3, 12 + per + per * per)
        return m, meta

    def file_map(self, ino, inode=None):
        """lblk -> (pblk, uninit); plus list of metadata blocks of the mapping"""
        inode = inode or self.inode(ino)
        if inode["flags"] & INLINE_DATA_FL:
            return {}, []
        if inode["flags"] & EXTENTS_FL:
            exts, nodes = self.extent_tree(ino, inode)
            m = {}
            for lblk, pblk, ln, un in exts:
                for k in range(ln):
                    m[lblk + k] = (pblk + k, un)
            return m, [n[0] for n in nodes]
        fmt = inode["mode"] & 0xF000
        if fmt == 0xA000 and inode["blocks"] == 0:
            return {}, []          # fast symlink
        if fmt in (0x1000, 0x2000, 0x6000, 0xC000):
            return {}, []
        m, meta = self.ind_blocks(ino, inode)
        return {k: (v, False) for k, v in m.items()}, meta

    def file_data(self, ino, inode=None):
        inode = inode or self.inode(ino)
        size = inode["size"]
        if inode["flags"] & INLINE_DATA_FL:
            return None
        fmt = inode["mode"] & 0xF000
        if fmt == 0xA000 and size < 60 and inode["blocks"] == 0:
            return inode["i_block"][:size]
        m, _ = self.file_map(ino, inode)
        out = bytearray(size)
        for lblk, (pblk, un) in m.items():
            if un:
                continue
            a = lblk * self.bs
            if a >= size:
                continue
            chunk = self.block(pblk)[:max(0, min(self.bs, size - a))]
            out[a:a + len(chunk)] = chunk
        return bytes(out)

    # ---- directories
    def dir_block_entries(self, blk_bytes):
        """linear walk of one directory block; returns [(offset, ino, rec_len, name_len, ftype, name)]"""
        out, o, n = [], 0, len(blk_bytes)
        while o + 8 <= n:
            ino, rec_len, name_len, ftype = struct.unpack_from("<IHBB", blk_bytes, o)
            rl = rec_len
            if n >= 65536 and (rl == 65535 or rl == 0):
                rl = 65536
            elif n >= 65536:
                rl = (rl & 65532) | ((rl & 3) << 16)
            if rl < 8 or rl % 4 or o + rl > n or (name_len + 8 > rl and ino):
                raise FormatError("bad dirent at %d" % o)
            out.append((o, ino, rl, name_len, ftype, blk_bytes[o + 8:o + 8 + name_len]))
            o += rl
        return out

    def dir_entries(self, ino, inode=None):
        inode = inode or self.inode(ino)
        if inode["flags"] & INLINE_DATA_FL:
            return None
        m, _ = self.file_map(ino, inode)
        ents = []
        for lblk in sorted(m):
            if lblk * self.bs >= inode["size"]:
                continue
            for (o, i, rl, nl, ft, name) in self.dir_block_entries(self.block(m[lblk][0])):
                if i and not (self.has_csum and i == 0):
                    ents.append((name, i, ft))
        return ents


# ---- whole-tree view (independent reading), used by the tool-level oracles
import hashlib as _hl


def tree(fs, with_times=False, max_nodes=200000):
    """path -> tuple(kind, mode, uid, gid, size_or_rdev, links, digest/target[, mtime]); raises FormatError"""
    out = {}
    seen_dirs = set()
    stack = [("/", 2)]
    n = 0
    while stack:
        path, ino = stack.pop()
        n += 1
        if n > max_nodes:
            raise FormatError("tree too large / cyclic")
        i = fs.inode(ino)
        fmt = i["mode"] & 0xF000
        ent = None
        if fmt == 0x4000:
            if ino in seen_dirs:
                raise FormatError("directory loop at inode %d" % ino)
            seen_dirs.add(ino)
            ents = fs.dir_entries(ino, i)
            if ents is None:
                raise FormatError("inline directory not supported by this reader")
            names = []
            for name, child, ft in ents:
                if name in (b".", b".."):
                    continue
                names.append(name)
                stack.append((path.rstrip("/") + "/" + name.decode("latin1"), child))
            ent = ("dir", i["mode"] & 0o7777, i["uid"], i["gid"], 0, i["links"], _hl.sha256(b"\0".join(sorted(names))).hexdigest()[:16])
        elif fmt == 0x8000:
            data = fs.file_data(ino, i)
            if data is None:
                raise FormatError("inline data not supported by this reader")
            ent = ("file", i["mode"] & 0o7777, i["uid"], i["gid"], i["size"], i["links"], _hl.sha256(data).hexdigest()[:16])
        elif fmt == 0xA000:
            data = fs.file_data(ino, i)
            ent = ("symlink", i["mode"] & 0o7777, i["uid"], i["gid"], i["size"], i["links"], (data or b"").decode("latin1"))
        else:
            ib = struct.unpack_from("<II", i["i_block"], 0)
            kind = {0x1000: "fifo", 0x2000: "chr", 0x6000: "blk", 0xC000: "sock"}.get(fmt, "other%x" % fmt)
            ent = (kind, i["mode"] & 0o7777, i["uid"], i["gid"], ib[0] or ib[1], i["links"], "")
        if with_times:
            ent = ent + (i["mtime"],)
        out[path] = ent
    return out

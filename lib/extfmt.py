# Independent reading of the ext2/3/4 on-disk format (no libext2fs code involved).
# Used by the tool-level checks as the "independent reader"; the decision cores it
# feeds (checksums, backup locations, bitmap/count agreement, ...) are Coq functions.
import struct

# feature bits
COMPAT_DIR_PREALLOC, COMPAT_HAS_JOURNAL, COMPAT_EXT_ATTR, COMPAT_RESIZE_INODE, COMPAT_DIR_INDEX = 0x1, 0x4, 0x8, 0x10, 0x20
COMPAT_SPARSE_SUPER2, COMPAT_ORPHAN_FILE = 0x200, 0x1000
INCOMPAT_FILETYPE, INCOMPAT_RECOVER, INCOMPAT_JOURNAL_DEV, INCOMPAT_META_BG = 0x2, 0x4, 0x8, 0x10
INCOMPAT_EXTENTS, INCOMPAT_64BIT, INCOMPAT_MMP, INCOMPAT_FLEX_BG = 0x40, 0x80, 0x100, 0x200
INCOMPAT_EA_INODE, INCOMPAT_CSUM_SEED, INCOMPAT_INLINE_DATA = 0x400, 0x2000, 0x8000
RO_SPARSE_SUPER, RO_LARGE_FILE, RO_HUGE_FILE, RO_GDT_CSUM, RO_DIR_NLINK, RO_EXTRA_ISIZE = 0x1, 0x2, 0x8, 0x10, 0x20, 0x40
RO_QUOTA, RO_BIGALLOC, RO_METADATA_CSUM, RO_PROJECT = 0x100, 0x200, 0x400, 0x2000

BG_INODE_UNINIT, BG_BLOCK_UNINIT, BG_INODE_ZEROED = 1, 2, 4
EXTENTS_FL, INDEX_FL, INLINE_DATA_FL, EA_INODE_FL, HUGE_FILE_FL = 0x80000, 0x1000, 0x10000000, 0x200000, 0x40000


class FormatError(Exception):
    pass


class Fs:
    def __init__(self, path=None, data=None, offset=0):
        self.d = data if data is not None else open(path, "rb").read()
        self.off = offset
        sb = self.d[offset + 1024:offset + 2048]
        if len(sb) < 1024:
            raise FormatError("short superblock")
        self.sb_raw = sb
        u32 = lambda o: struct.unpack_from("<I", sb, o)[0]
        u16 = lambda o: struct.unpack_from("<H", sb, o)[0]
        self.magic = u16(0x38)
        if self.magic != 0xEF53:
            raise FormatError("bad magic")
        self.inodes_count = u32(0)
        self.first_data_block = u32(0x14)
        self.log_block_size = u32(0x18)
        self.log_cluster_size = u32(0x1C)
        self.blocks_per_group = u32(0x20)
        self.clusters_per_group = u32(0x24)
        self.inodes_per_group = u32(0x28)
        self.state = u16(0x3A)
        self.rev = u32(0x4C)
        self.first_ino = u32(0x54) if self.rev >= 1 else 11
        self.inode_size = u16(0x58) if self.rev >= 1 else 128
        self.block_group_nr = u16(0x5A)
        self.compat, self.incompat, self.ro_compat = u32(0x5C), u32(0x60), u32(0x64)
        self.uuid = sb[0x68:0x78]
        self.reserved_gdt = u16(0xCE)
        self.journal_inum = u32(0xE0)
        self.desc_size = u16(0xFE) if self.incompat & INCOMPAT_64BIT else 32
        if self.incompat & INCOMPAT_64BIT and self.desc_size < 32:
            raise FormatError("bad desc size")
        self.first_meta_bg = u32(0x104)
        self.log_groups_per_flex = sb[0x174]
        self.blocks_count = u32(4) | ((u32(0x150) << 32) if self.incompat & INCOMPAT_64BIT else 0)
        self.free_blocks = u32(0xC) | ((u32(0x158) << 32) if self.incompat & INCOMPAT_64BIT else 0)
        self.free_inodes = u32(0x10)
        self.backup_bgs = (u32(0x24C), u32(0x250))
        self.checksum_seed = u32(0x270)
        self.sb_checksum = u32(0x3FC)
        self.mmp_block = struct.unpack_from("<Q", sb, 0x168)[0]
        self.bs = 1024 << self.log_block_size
        if self.log_block_size > 6 or self.blocks_per_group == 0 or self.inodes_per_group == 0:
            raise FormatError("bad geometry")
        self.cluster_ratio = 1 << (self.log_cluster_size - self.log_block_size) if self.ro_compat & RO_BIGALLOC else 1
        self.groups_count = (self.blocks_count - self.first_data_block + self.blocks_per_group - 1) // self.blocks_per_group
        self.desc_per_block = self.bs // self.desc_size
        self.desc_blocks = (self.groups_count + self.desc_per_block - 1) // self.desc_per_block
        self.itb_per_group = (self.inodes_per_group * self.inode_size + self.bs - 1) // self.bs
        self.has_csum = bool(self.ro_compat & RO_METADATA_CSUM)
        self.has_gdt_csum = bool(self.ro_compat & RO_GDT_CSUM)
        self.groups = [self._read_gd(g) for g in range(self.groups_count)]

    # ---- raw access
    def block(self, n, count=1):
        a = self.off + n * self.bs
        b = self.d[a:a + count * self.bs]
        if len(b) != count * self.bs:
            raise FormatError("block %d out of range" % n)
        return b

    def group_first_block(self, g):
        return self.first_data_block + g * self.blocks_per_group

    # ---- which groups carry a superblock backup (format definition)
    def bg_has_super(self, g):
        if g == 0:
            return True
        if self.compat & COMPAT_SPARSE_SUPER2:
            return g in self.backup_bgs and g != 0
        if g <= 1 or not (self.ro_compat & RO_SPARSE_SUPER):
            return True
        if g % 2 == 0:
            return False
        for b in (3, 5, 7):
            x = b
            while x < g:
                x *= b
            if x == g:
                return True
        return False

    def desc_block_loc(self, i):
        """block holding descriptor block i of the primary table"""
        if not (self.incompat & INCOMPAT_META_BG) or i < self.first_meta_bg:
            # 1k blocks with s_first_data_block 0 (bigalloc): the superblock is block 1, the table starts behind it
            adj = 1 if (self.first_data_block == 0 and self.bs == 1024) else 0
            return self.first_data_block + 1 + adj + i
        g = i * self.desc_per_block
        first = self.group_first_block(g)
        if first == 0 and self.bs == 1024:
            first = 1          # 1k blocks with s_first_data_block 0 (bigalloc): block 0 is not part of group 0
        return first + (1 if self.bg_has_super(g) else 0)

    def gd_raw(self, g):
        blk = self.block(self.desc_block_loc(g // self.desc_per_block))
        o = (g % self.desc_per_block) * self.desc_size
        return blk[o:o + self.desc_size]

    def _read_gd(self, g):
        r = self.gd_raw(g)
        lo = struct.unpack_from("<IIIHHHHIHHHH", r, 0)
        d = dict(block_bitmap=lo[0], inode_bitmap=lo[1], inode_table=lo[2], free_blocks=lo[3], free_inodes=lo[4],
                 used_dirs=lo[5], flags=lo[6], exclude_bitmap=lo[7], bb_csum=lo[8], ib_csum=lo[9],
                 itable_unused=lo[10], checksum=lo[11], raw=r)
        if self.desc_size >= 64:
            hi = struct.unpack_from("<IIIHHHHIHH", r, 32)
            d["block_bitmap"] |= hi[0] << 32
            d["inode_bitmap"] |= hi[1] << 32
            d["inode_table"] |= hi[2] << 32
            d["free_blocks"] |= hi[3] << 16
            d["free_inodes"] |= hi[4] << 16
            d["used_dirs"] |= hi[5] << 16
            d["itable_unused"] |= hi[6] << 16
            d["bb_csum"] |= hi[8] << 16
            d["ib_csum"] |= hi[9] << 16
        return d

    # ---- inodes
    def inode_loc(self, ino):
        if ino < 1 or ino > self.inodes_count:
            raise FormatError("inode %d out of range" % ino)
        g, i = divmod(ino - 1, self.inodes_per_group)
        return self.off + self.groups[g]["inode_table"] * self.bs + i * self.inode_size

    def inode_raw(self, ino):
        a = self.inode_loc(ino)
        r = self.d[a:a + self.inode_size]
        if len(r) != self.inode_size:
            raise FormatError("inode table out of range")
        return r

    def inode(self, ino):
        r = self.inode_raw(ino)
        f = struct.unpack_from("<HHIIIIIHHII", r, 0)
        d = dict(ino=ino, mode=f[0], uid=f[1], size=f[2], atime=f[3], ctime=f[4], mtime=f[5], dtime=f[6], gid=f[7],
                 links=f[8], blocks=f[9], flags=f[10], raw=r, i_block=r[40:100])
        d["generation"], d["file_acl"], size_hi = struct.unpack_from("<III", r, 100)
        d["size"] |= size_hi << 32
        blocks_hi, acl_hi, uid_hi, gid_hi, csum_lo = struct.unpack_from("<HHHHH", r, 116)
        d["blocks"] |= blocks_hi << 32
        d["file_acl"] |= acl_hi << 32
        d["uid"] |= uid_hi << 16
        d["gid"] |= gid_hi << 16
        d["csum_lo"] = csum_lo
        d["extra_isize"] = struct.unpack_from("<H", r, 128)[0] if self.inode_size > 128 else 0
        d["csum_hi"] = struct.unpack_from("<H", r, 130)[0] if self.inode_size > 128 and d["extra_isize"] >= 4 else None
        return d

    def inode_bitmap_bit(self, ino):
        g, i = divmod(ino - 1, self.inodes_per_group)
        gd = self.groups[g]
        if gd["flags"] & BG_INODE_UNINIT and self.has_group_csum():
            return False
        b = self.block(gd["inode_bitmap"])
        return bool(b[i >> 3] >> (i & 7) & 1)

    def has_group_csum(self):
        return self.has_csum or self.has_gdt_csum

    def in_use_inodes(self):
        out = []
        for g, gd in enumerate(self.groups):
            if gd["flags"] & BG_INODE_UNINIT and self.has_group_csum():
                continue
            b = self.block(gd["inode_bitmap"])
            for i in range(self.inodes_per_group):
                if b[i >> 3] >> (i & 7) & 1:
                    out.append(g * self.inodes_per_group + i + 1)
        return out

    # ---- block mapping
    def extent_tree(self, ino, inode=None):
        """returns (extents [(lblk, pblk, len, uninit)], nodes [(pblk, bytes, depth)])"""
        inode = inode or self.inode(ino)
        exts, nodes = [], []

        def walk(buf, depth_expect, pblk):
            magic, entries, mx, depth, gen = struct.unpack_from("<HHHHI", buf, 0)
            if magic != 0xF30A:
                raise FormatError("bad extent magic in inode %d" % ino)
            if depth_expect is not None and depth != depth_expect:
                raise FormatError("extent depth mismatch in inode %d" % ino)
            if depth > 32 or entries > mx or 12 + 12 * mx > len(buf):
                raise FormatError("bad extent header in inode %d" % ino)
            for i in range(entries):
                o = 12 + 12 * i
                if depth == 0:
                    lblk, ln, hi, lo = struct.unpack_from("<IHHI", buf, o)
                    un = ln > 32768
                    exts.append((lblk, (hi << 32) | lo, ln - 32768 if un else ln, un))
                else:
                    lblk, lo, hi, _ = struct.unpack_from("<IIHH", buf, o)
                    p = (hi << 32) | lo
                    if len(nodes) > 100000:
                        raise FormatError("extent tree too large")
                    child = self.block(p)
                    nodes.append((p, child, depth - 1))
                    walk(child, depth - 1, p)
        walk(inode["i_block"], None, None)
        return exts, nodes

    def ind_blocks(self, ino, inode=None):
        """block-mapped file: returns (map lblk->pblk, [indirect blocks])"""
        inode = inode or self.inode(ino)
        ib = struct.unpack_from("<15I", inode["i_block"], 0)
        per = self.bs // 4
        m, meta = {}, []
        for i in range(12):
            if ib[i]:
                m[i] = ib[i]

        def walk(blk, level, base):
            if not blk:
                return
            meta.append(blk)
            ptrs = struct.unpack_from("<%dI" % per, self.block(blk), 0)
            span = per ** (level - 1)
            for i, p in enumerate(ptrs):
                if not p:
                    continue
                if level == 1:
                    m[base + i] = p
                else:
                    walk(p, level - 1, base + i * span)
        walk(ib[12], 1, 12)
        walk(ib[13], 2, 12 + per)
        walk(ib[14], 3, 12 + per + per * per)
        return m, meta

    def file_map(self, ino, inode=None):
        """lblk -> (pblk, uninit); plus list of metadata blocks of the mapping"""
        inode = inode or self.inode(ino)
        if inode["flags"] & INLINE_DATA_FL:
            return {}, []
        if (inode["mode"] & 0xF000) == 0xA000 and 0 < inode["size"] < 60 and not inode["flags"] & EXTENTS_FL:
            return {}, []          # fast symlink (target stored in i_block)
        if inode["flags"] & EXTENTS_FL:
            exts, nodes = self.extent_tree(ino, inode)
            m = {}
            for lblk, pblk, ln, un in exts:
                for k in range(ln):
                    m[lblk + k] = (pblk + k, un)
            return m, [n[0] for n in nodes]
        fmt = inode["mode"] & 0xF000
        if fmt == 0xA000 and 0 < inode["size"] < 60:
            return {}, []          # fast symlink (target stored in i_block)
        if fmt in (0x1000, 0x2000, 0x6000, 0xC000):
            return {}, []
        m, meta = self.ind_blocks(ino, inode)
        return {k: (v, False) for k, v in m.items()}, meta

    inline = False      # opt-in: read inline-data files and directories (i_block + system.data)

    def inline_bytes(self, ino, inode):
        """(the 60 bytes of i_block, the system.data value)"""
        try:
            extra = xattrs(self, ino, inode).get("system.data", b"")
        except (FormatError, struct.error):
            extra = b""
        return bytes(inode["i_block"][:60]), extra

    def file_data(self, ino, inode=None):
        inode = inode or self.inode(ino)
        size = inode["size"]
        if inode["flags"] & INLINE_DATA_FL:
            if not self.inline:
                return None
            a, b = self.inline_bytes(ino, inode)
            return (a + b)[:size]
        fmt = inode["mode"] & 0xF000
        if fmt == 0xA000 and 0 < size < 60 and not inode["flags"] & EXTENTS_FL:
            return inode["i_block"][:size]
        m, _ = self.file_map(ino, inode)
        out = bytearray(size)
        for lblk, (pblk, un) in m.items():
            if un:
                continue
            a = lblk * self.bs
            if a >= size:
                continue
            chunk = self.block(pblk)[:max(0, min(self.bs, size - a))]
            out[a:a + len(chunk)] = chunk
        return bytes(out)

    # ---- directories
    def dir_block_entries(self, blk_bytes):
        """linear walk of one directory block; returns [(offset, ino, rec_len, name_len, ftype, name)]"""
        out, o, n = [], 0, len(blk_bytes)
        while o + 8 <= n:
            ino, rec_len, name_len, ftype = struct.unpack_from("<IHBB", blk_bytes, o)
            rl = rec_len
            if n >= 65536 and (rl == 65535 or rl == 0):
                rl = 65536
            elif n >= 65536:
                rl = (rl & 65532) | ((rl & 3) << 16)
            if rl < 8 or rl % 4 or o + rl > n or (name_len + 8 > rl and ino):
                raise FormatError("bad dirent at %d" % o)
            out.append((o, ino, rl, name_len, ftype, blk_bytes[o + 8:o + 8 + name_len]))
            o += rl
        return out

    def dir_entries(self, ino, inode=None):
        inode = inode or self.inode(ino)
        if inode["flags"] & INLINE_DATA_FL:
            if not self.inline:
                return None
            a, b = self.inline_bytes(ino, inode)
            ents = [(b".", ino, 2), (b"..", struct.unpack_from("<I", a, 0)[0], 2)]
            for region in (a[4:], b):
                if len(region) >= 8:
                    ents += [(name, i, ft) for (o, i, rl, nl, ft, name) in self.dir_block_entries(region) if i]
            return ents
        m, _ = self.file_map(ino, inode)
        ents = []
        for lblk in sorted(m):
            if lblk * self.bs >= inode["size"]:
                continue
            for (o, i, rl, nl, ft, name) in self.dir_block_entries(self.block(m[lblk][0])):
                if i and not (self.has_csum and i == 0):
                    ents.append((name, i, ft))
        return ents


# ---- extended attributes
XATTR_MAGIC = 0xEA020000
XATTR_PREFIX = {1: "user.", 2: "system.posix_acl_access", 3: "system.posix_acl_default", 4: "trusted.", 6: "security.", 7: "system.", 8: "system.richacl"}


def _xattr_entries(buf, start, value_base, limit):
    """entries from buf[start:], values at value_base + e_value_offs; returns list of (index, name, value|('ea_inode', ino), hash, raw_entry_offset)"""
    out, o = [], start
    while o + 4 <= limit:
        if struct.unpack_from("<I", buf, o)[0] == 0:
            break
        if o + 16 > limit:
            raise FormatError("xattr entry overruns")
        nl, idx, voff, vino, vsize, h = struct.unpack_from("<BBHIII", buf, o)
        if o + 16 + nl > limit:
            raise FormatError("xattr name overruns")
        name = bytes(buf[o + 16:o + 16 + nl])
        if vino:
            val = ("ea_inode", vino, vsize)
        else:
            if value_base + voff + vsize > len(buf) or (vsize and value_base + voff < 0):
                raise FormatError("xattr value out of bounds")
            val = bytes(buf[value_base + voff:value_base + voff + vsize])
        out.append((idx, name, val, h, o))
        o += (16 + nl + 3) & ~3
    return out


def xattrs(fs, ino, inode=None):
    """{full name: value} of an inode, from the inode body and the xattr block"""
    inode = inode or fs.inode(ino)
    res = {}
    raw = inode["raw"]
    if fs.inode_size > 128:
        base = 128 + inode["extra_isize"]
        if base + 4 <= fs.inode_size and struct.unpack_from("<I", raw, base)[0] == XATTR_MAGIC:
            for idx, name, val, h, o in _xattr_entries(raw, base + 4, base + 4, fs.inode_size):
                res[XATTR_PREFIX.get(idx, "idx%d." % idx) + name.decode("latin1")] = val
    if inode["file_acl"]:
        blk = fs.block(inode["file_acl"])
        if struct.unpack_from("<I", blk, 0)[0] != XATTR_MAGIC:
            raise FormatError("bad xattr block magic for inode %d" % ino)
        for idx, name, val, h, o in _xattr_entries(blk, 32, 0, fs.bs):
            res[XATTR_PREFIX.get(idx, "idx%d." % idx) + name.decode("latin1")] = val
    for k, v in list(res.items()):
        if isinstance(v, tuple):
            try:
                res[k] = fs.file_data(v[1])[:v[2]]
            except Exception:
                res[k] = b"<unreadable ea_inode %d>" % v[1]
    return res


# ---- whole-tree view (independent reading), used by the tool-level oracles
import hashlib as _hl

BIG_FILE = 64 << 20      # above this size a file's digest is taken over its non-zero 1k pieces only (offset, bytes), plus its size


def sparse_digest_update(h, off, chunk):
    """feed the 1k-aligned pieces of [chunk] (starting at byte offset [off], off % 1024 == 0) that are not all zero"""
    for k in range(0, len(chunk), 1024):
        piece = chunk[k:k + 1024]
        if piece.strip(b"\0"):
            h.update(struct.pack("<Q", off + k))
            h.update(piece.ljust(1024, b"\0"))


def sparse_digest_of_map(fs, ino, inode):
    h = _hl.sha256()
    m, _ = fs.file_map(ino, inode)
    size = inode["size"]
    for lblk in sorted(m):
        pblk, un = m[lblk]
        a = lblk * fs.bs
        if un or a >= size:
            continue
        sparse_digest_update(h, a, fs.block(pblk)[:max(0, min(fs.bs, size - a))])
    h.update(struct.pack("<Q", size))
    return "S" + h.hexdigest()[:15]


def sparse_digest_of_file(path):
    """the same digest for a host file, walking its data extents (SEEK_DATA / SEEK_HOLE)"""
    import os as _os
    h = _hl.sha256()
    size = _os.path.getsize(path)
    fd = _os.open(path, _os.O_RDONLY)
    try:
        pos = 0
        while pos < size:
            try:
                d = _os.lseek(fd, pos, _os.SEEK_DATA)
            except OSError:
                break
            e = _os.lseek(fd, d, _os.SEEK_HOLE)
            d -= d % 1024
            pos = d
            while pos < e:
                n = min(1 << 20, e - pos)
                chunk = _os.pread(fd, n, pos)
                if not chunk:
                    break
                sparse_digest_update(h, pos, chunk)
                pos += len(chunk)
                if pos % 1024:
                    pos += 1024 - pos % 1024
    finally:
        _os.close(fd)
    h.update(struct.pack("<Q", size))
    return "S" + h.hexdigest()[:15]


def tree(fs, with_times=False, max_nodes=200000):
    """path -> tuple(kind, mode, uid, gid, size_or_rdev, links, digest/target[, mtime]); raises FormatError"""
    out = {}
    seen_dirs = set()
    stack = [("/", 2)]
    n = 0
    while stack:
        path, ino = stack.pop()
        n += 1
        if n > max_nodes:
            raise FormatError("tree too large / cyclic")
        i = fs.inode(ino)
        fmt = i["mode"] & 0xF000
        ent = None
        if fmt == 0x4000:
            if ino in seen_dirs:
                raise FormatError("directory loop at inode %d" % ino)
            seen_dirs.add(ino)
            ents = fs.dir_entries(ino, i)
            if ents is None:
                raise FormatError("inline directory not supported by this reader")
            names = []
            for name, child, ft in ents:
                if name in (b".", b".."):
                    continue
                names.append(name)
                stack.append((path.rstrip("/") + "/" + name.decode("latin1"), child))
            ent = ("dir", i["mode"] & 0o7777, i["uid"], i["gid"], 0, i["links"], _hl.sha256(b"\0".join(sorted(names))).hexdigest()[:16])
        elif fmt == 0x8000 and i["size"] > BIG_FILE and not i["flags"] & INLINE_DATA_FL:
            ent = ("file", i["mode"] & 0o7777, i["uid"], i["gid"], i["size"], i["links"], sparse_digest_of_map(fs, ino, i))
        elif fmt == 0x8000:
            data = fs.file_data(ino, i)
            if data is None:
                raise FormatError("inline data not supported by this reader")
            ent = ("file", i["mode"] & 0o7777, i["uid"], i["gid"], i["size"], i["links"], _hl.sha256(data).hexdigest()[:16])
        elif fmt == 0xA000:
            data = fs.file_data(ino, i)
            ent = ("symlink", i["mode"] & 0o7777, i["uid"], i["gid"], i["size"], i["links"], (data or b"").decode("latin1"))
        else:
            ib = struct.unpack_from("<II", i["i_block"], 0)
            kind = {0x1000: "fifo", 0x2000: "chr", 0x6000: "blk", 0xC000: "sock"}.get(fmt, "other%x" % fmt)
            ent = (kind, i["mode"] & 0o7777, i["uid"], i["gid"], ib[0] or ib[1], i["links"], "")
        try:
            xa = xattrs(fs, ino, i)
            xa.pop("system.data", None)
        except (FormatError, struct.error):
            xa = {"<unreadable>": b""}
        if xa:
            ent = ent + (tuple(sorted((k, _hl.sha256(v).hexdigest()[:12]) for k, v in xa.items())),)
        if with_times:
            ent = ent + (i["mtime"],)
        out[path] = ent
    return out


# ---- consistency (the invariants of C02), judged from the on-disk format alone
_crc_tab = None


def crc32c(seed, data):
    global _crc_tab
    if _crc_tab is None:
        tab = []
        for i in range(256):
            c = i
            for _ in range(8):
                c = (c >> 1) ^ (0x82F63B78 if c & 1 else 0)
            tab.append(c)
        _crc_tab = tab          # published only when complete (checks run reader threads)
    c = seed
    t = _crc_tab
    for b in data:
        c = t[(c ^ b) & 255] ^ (c >> 8)
    return c


def _crc16(seed, data):
    c = seed
    for b in data:
        c ^= b
        for _ in range(8):
            c = (c >> 1) ^ (0xA001 if c & 1 else 0)
    return c


def fixed_metadata(fs):
    """blocks owned by the format itself: superblocks, descriptor tables (+reserved), bitmaps, inode tables"""
    own = {}

    def claim(b, n, what):
        for k in range(n):
            own.setdefault(b + k, []).append(what)
    for g in range(fs.groups_count):
        gb = fs.group_first_block(g)
        gb1 = 1 if (gb == 0 and fs.bs == 1024) else gb      # bigalloc 1k quirk
        hs = fs.bg_has_super(g)
        if hs:
            claim(gb1 if g else (0 if fs.bs > 1024 else 1), 1, "sb")
            if g == 0 and fs.bs > 1024:
                pass
        mbs = fs.desc_per_block
        if not (fs.incompat & INCOMPAT_META_BG) or (g // mbs) < fs.first_meta_bg:
            if hs:
                nold = fs.first_meta_bg if fs.incompat & INCOMPAT_META_BG else fs.desc_blocks + fs.reserved_gdt
                claim(gb1 + 1, nold, "gdt")
        else:
            if g % mbs in (0, 1, mbs - 1):
                claim(gb1 + (1 if hs else 0), 1, "gdt")
        gd = fs.groups[g]
        claim(gd["block_bitmap"], 1, "bb")
        claim(gd["inode_bitmap"], 1, "ib")
        claim(gd["inode_table"], fs.itb_per_group, "it")
    if fs.bs == 1024 or fs.first_data_block > 0:
        for b in range(fs.first_data_block):
            own.setdefault(b, []).append("boot")
    if fs.incompat & INCOMPAT_MMP and fs.mmp_block:
        claim(fs.mmp_block, 1, "mmp")
    return own


def consistency(fs, check_csums=True):
    """returns a list of violated invariant clauses (empty = consistent)"""
    bad = []
    add = lambda clause, msg: bad.append("%s: %s" % (clause, msg)) if len(bad) < 40 else None
    seed = fs.checksum_seed if fs.incompat & INCOMPAT_CSUM_SEED else crc32c(0xFFFFFFFF, fs.uuid)
    own = fixed_metadata(fs)
    for b, who in own.items():
        if len(who) > 1 and not (set(who) <= {"boot", "sb"}):
            add("single_owner", "fixed metadata block %d claimed by %s" % (b, who))
        if b >= fs.blocks_count:
            add("range", "fixed metadata block %d beyond the filesystem" % b)
    cr = fs.cluster_ratio
    owner = {}            # block -> inode
    xrefs = {}            # attribute block -> number of inodes pointing at it
    used_inodes = fs.in_use_inodes()
    used_set = set(used_inodes)
    dirs, links_found, is_dir = {}, {}, {}
    special = {1, fs.journal_inum} | ({7} if fs.compat & COMPAT_RESIZE_INODE else set())
    for o in (0x240, 0x244, 0x26C):   # usr/grp/prj quota inodes
        q = struct.unpack_from("<I", fs.sb_raw, o)[0]
        if q:
            special.add(q)
    orphan_ino = struct.unpack_from("<I", fs.sb_raw, 0x280)[0] if fs.compat & COMPAT_ORPHAN_FILE else 0
    if orphan_ino:
        special.add(orphan_ino)
    ea_inodes = set()

    def claim_block(b, ino, what):
        if b < fs.first_data_block or b >= fs.blocks_count:
            add("range", "inode %d references block %d (%s) outside the filesystem" % (ino, b, what))
            return
        if b in own:
            add("not_meta", "inode %d references fixed metadata block %d (%s)" % (ino, b, what))
            return
        prev = owner.get(b)
        if prev is not None and prev != ino:
            if cr == 1 and not fs.ro_compat & 0x4000:       # shared_blocks: sharing is intended
                add("single_owner", "block %d claimed by inodes %d and %d" % (b, prev, ino))
        owner[b] = ino
    for ino in used_inodes:
        try:
            i = fs.inode(ino)
        except FormatError as ex:
            add("range", str(ex))
            continue
        if ino < fs.first_ino and ino not in (2,) and ino not in special:
            continue              # reserved inodes other than the ones with a defined role are not judged
        if ino == 1:
            # the bad-blocks inode may list any block, fixed metadata included: its blocks count as in use
            try:
                m1, meta1 = fs.ind_blocks(1, i)
                for b in list(m1.values()) + meta1:
                    if fs.first_data_block <= b < fs.blocks_count and b not in own:
                        owner.setdefault(b, 1)
            except (FormatError, struct.error):
                pass
            continue
        if i["links"] == 0 and i["dtime"] and ino >= fs.first_ino:
            add("ibitmap", "inode %d is marked in use but deleted" % ino)
            continue
        fmt = i["mode"] & 0xF000
        is_dir[ino] = fmt == 0x4000
        if check_csums and fs.has_csum:
            raw = bytearray(i["raw"])
            has_hi = fs.inode_size > 128 and i["extra_isize"] >= 4
            lo = struct.unpack_from("<H", raw, 124)[0]
            hi = struct.unpack_from("<H", raw, 130)[0] if has_hi else 0
            raw[124:126] = b"\0\0"
            if has_hi:
                raw[130:132] = b"\0\0"
            c = crc32c(crc32c(crc32c(seed, struct.pack("<I", ino)), raw[100:104]), bytes(raw))
            if (c & 0xFFFF) != lo or (has_hi and (c >> 16) != hi):
                add("csum_inode", "inode %d checksum" % ino)
        if i["flags"] & EA_INODE_FL:
            ea_inodes.add(ino)
        if ino == 7 and fs.compat & COMPAT_RESIZE_INODE:
            # documented exception: the resize inode's double-indirect block maps the reserved
            # GDT blocks (fixed metadata); only the DIND block itself is an owned block
            dind = struct.unpack_from("<15I", i["i_block"], 0)[13]
            if dind:
                claim_block(dind, ino, "resize dind")
            continue
        try:
            fmap, meta = fs.file_map(ino, i)
        except FormatError as ex:
            add("extents", str(ex))
            continue
        except struct.error:
            add("extents", "inode %d mapping unreadable" % ino)
            continue
        for b in meta:
            claim_block(b, ino, "mapping metadata")
        for lblk, (p, un) in fmap.items():
            claim_block(p, ino, "data")
        if i["file_acl"]:
            claim_xattr = owner.get(i["file_acl"])
            if i["file_acl"] < fs.first_data_block or i["file_acl"] >= fs.blocks_count or i["file_acl"] in own:
                add("range", "inode %d xattr block %d invalid" % (ino, i["file_acl"]))
            else:
                owner.setdefault(i["file_acl"], -ino)     # xattr blocks may be shared (refcount)
                xrefs[i["file_acl"]] = xrefs.get(i["file_acl"], 0) + 1
        nblk = (len({p // cr for (p, u) in fmap.values()}) + len({b // cr for b in meta})) * cr + (cr if i["file_acl"] else 0)
        iblocks = i["blocks"] * (fs.bs // 512 if i["flags"] & HUGE_FILE_FL and fs.ro_compat & RO_HUGE_FILE else 1)
        if cr == 1 and iblocks != nblk * (fs.bs // 512) and not (i["flags"] & INLINE_DATA_FL) and ino not in ea_inodes:
            # ea_inode value blocks are charged to the parent by the kernel; compare leniently there
            if not (fs.incompat & INCOMPAT_EA_INODE):
                add("iblocks", "inode %d i_blocks %d, maps %d blocks" % (ino, i["blocks"], nblk))
        if fmt == 0x4000:
            if i["flags"] & INLINE_DATA_FL:
                dirs[ino] = None
                continue
            ents = []
            gen = i["generation"]
            for lblk in sorted(fmap):
                if lblk * fs.bs >= i["size"]:
                    continue
                blk = fs.block(fmap[lblk][0])
                try:
                    es = fs.dir_block_entries(blk)
                except FormatError as ex:
                    add("dirblocks", "directory inode %d block %d: %s" % (ino, lblk, ex))
                    continue
                # checksum tail / htree node
                if check_csums and fs.has_csum:
                    i0, rl0 = struct.unpack_from("<IH", blk, 0)
                    dx = None
                    if i["flags"] & INDEX_FL and lblk == 0:
                        dx = 0x20
                    elif i["flags"] & INDEX_FL and i0 == 0 and rl0 in (fs.bs & 0xFFFF, 0) and len(es) == 1:
                        dx = 8
                    if dx is not None:
                        limit, count = struct.unpack_from("<HH", blk, dx)
                        toff = dx + 8 * limit
                        if toff + 8 <= fs.bs and count <= limit:
                            c = crc32c(crc32c(crc32c(crc32c(crc32c(seed, struct.pack("<I", ino)), struct.pack("<I", gen)),
                                                     blk[:dx + 8 * count]), blk[toff:toff + 4]), b"\0\0\0\0")
                            if c != struct.unpack_from("<I", blk, toff + 4)[0]:
                                add("csum_dir", "htree node checksum, inode %d block %d" % (ino, lblk))
                        else:
                            add("htree", "inode %d block %d: bad count/limit" % (ino, lblk))
                    else:
                        ti, trl, tnl, tft = struct.unpack_from("<IHBB", blk, fs.bs - 12)
                        if (ti, trl, tnl, tft) != (0, 12, 0, 0xDE):
                            add("csum_dir", "directory inode %d block %d has no checksum tail" % (ino, lblk))
                        else:
                            c = crc32c(crc32c(crc32c(seed, struct.pack("<I", ino)), struct.pack("<I", gen)), blk[:fs.bs - 12])
                            if c != struct.unpack_from("<I", blk, fs.bs - 4)[0]:
                                add("csum_dir", "directory leaf checksum, inode %d block %d" % (ino, lblk))
                for (o, ci, rl, nl, ft, name) in es:
                    if ci:
                        ents.append((name, ci, ft))
            dirs[ino] = ents
            if i["flags"] & INDEX_FL:
                for msg in htree_problems(fs, ino, i, fmap):
                    add("htree", msg)
    # directory graph: links, reachability, '.' and '..'
    for d, ents in dirs.items():
        if ents is None:
            continue
        names = [e[0] for e in ents]
        if names[:1] != [b"."] or names[1:2] != [b".."]:
            add("dirblocks", "directory %d does not start with . and .." % d)
        for name, ci, ft in ents:
            if ci < 1 or ci > fs.inodes_count:
                add("range", "directory %d entry %r references inode %d" % (d, name[:20], ci))
                continue
            if name == b".":
                if ci != d:
                    add("dirblocks", "'.' of directory %d points to %d" % (d, ci))
                links_found[d] = links_found.get(d, 0) + 1
                continue
            if name == b"..":
                links_found[ci] = links_found.get(ci, 0) + 1
                continue
            links_found[ci] = links_found.get(ci, 0) + 1
            if ci not in used_set:
                add("ibitmap", "directory %d entry %r references unused inode %d" % (d, name[:20], ci))
    # '..' names the directory that holds the entry leading here (the root is its own parent)
    holders = {}
    for d, ents in dirs.items():
        for name, ci, ft in (ents or []):
            if name not in (b".", b"..") and ci in dirs:
                holders.setdefault(ci, set()).add(d)
    for d, ents in dirs.items():
        if ents is None or len(ents) < 2 or ents[1][0] != b"..":
            continue
        up = ents[1][1]
        want = {2} if d == 2 else holders.get(d)
        if want and up not in want:
            add("dotdot", "'..' of directory %d names inode %d, the directory is held by %s" % (d, up, sorted(want)))
    reach, stack = set(), [2]
    while stack:
        d = stack.pop()
        if d in reach:
            continue
        reach.add(d)
        for name, ci, ft in (dirs.get(d) or []):
            if name not in (b".", b"..") and ci in dirs and ci not in reach:
                stack.append(ci)
            elif name not in (b".", b".."):
                reach.add(ci)
    for ino in used_inodes:
        if ino not in is_dir:
            continue
        if ino < fs.first_ino and ino != 2:
            continue
        if ino in ea_inodes or ino in special:
            continue
        i = fs.inode(ino)
        if dirs.get(ino, 0) is None or any(v is None for v in dirs.values()):
            continue     # inline directories are outside this reader
        if ino not in reach:
            add("reach", "inode %d is in use but not reachable from the root" % ino)
        n = links_found.get(ino, 0)
        exp = n
        if is_dir.get(ino) and fs.ro_compat & RO_DIR_NLINK and n > 65000:
            exp = 1
        # a link count of 1 on a directory says "more subdirectories than the field can count / not counted": with the
        # dir_nlink feature for every directory, and (e2fsck pass 4, PR_4_DIR_OVERFLOW_REF_COUNT: "fix this but don't
        # consider it an error") for an indexed directory also without the feature
        if i["links"] != exp and not (is_dir.get(ino) and i["links"] == 1 and (fs.ro_compat & RO_DIR_NLINK or i["flags"] & INDEX_FL)):
            add("links", "inode %d link count %d, %d references" % (ino, i["links"], n))
    # attribute blocks: magic and reference count = number of inodes pointing at the block
    for b, nref in sorted(xrefs.items()):
        hdr = fs.block(b)[:8]
        if struct.unpack_from("<I", hdr, 0)[0] != XATTR_MAGIC:
            add("xattr", "attribute block %d has no magic" % b)
        elif struct.unpack_from("<I", hdr, 4)[0] != nref:
            add("xattr", "attribute block %d has reference count %d, %d inode(s) point at it" % (b, struct.unpack_from("<I", hdr, 4)[0], nref))
    # bitmaps and per-group counts
    csum = fs.has_group_csum()
    for g, gd in enumerate(fs.groups):
        base = fs.group_first_block(g)
        nblk = min(fs.blocks_per_group, fs.blocks_count - base)
        bb_uninit = bool(gd["flags"] & BG_BLOCK_UNINIT) and csum
        bm = None if bb_uninit else fs.block(gd["block_bitmap"])
        free = 0
        bb_reported = False
        for c in range((nblk + cr - 1) // cr):
            blocks = range(base + c * cr, min(base + (c + 1) * cr, base + nblk))
            in_use = any((b in own) or (b in owner) for b in blocks)
            if bm is not None:
                bit = bool(bm[c >> 3] >> (c & 7) & 1)
                if bit != in_use and not bb_reported:
                    add("bbitmap", "group %d cluster %d: bitmap %d, usage %d" % (g, c, bit, in_use))
                    bb_reported = True        # one clause per group; keep counting
            if not in_use:
                free += 1
        if free != gd["free_blocks"]:
            add("group_counts", "group %d free blocks %d, actual %d" % (g, gd["free_blocks"], free))
        ib_uninit = bool(gd["flags"] & BG_INODE_UNINIT) and csum
        ifree = fs.inodes_per_group - sum(1 for ino in used_inodes if (ino - 1) // fs.inodes_per_group == g)
        if ifree != gd["free_inodes"]:
            add("group_counts", "group %d free inodes %d, actual %d" % (g, gd["free_inodes"], ifree))
        ndirs = sum(1 for ino, d in is_dir.items() if d and (ino - 1) // fs.inodes_per_group == g)
        if ndirs != gd["used_dirs"]:
            add("group_counts", "group %d used dirs %d, actual %d" % (g, gd["used_dirs"], ndirs))
        if check_csums and fs.has_csum:
            raw = bytearray(gd["raw"])
            raw[30:32] = b"\0\0"
            if (crc32c(crc32c(seed, struct.pack("<I", g)), bytes(raw)) & 0xFFFF) != gd["checksum"]:
                add("csum_gd", "group %d descriptor checksum" % g)
            if bm is not None:
                c = crc32c(seed, bm[:fs.clusters_per_group // 8])
                if (c & 0xFFFF) != (gd["bb_csum"] & 0xFFFF) or (fs.desc_size >= 64 and c != gd["bb_csum"]):
                    add("csum_bitmap", "group %d block bitmap checksum" % g)
            if not ib_uninit:
                c = crc32c(seed, fs.block(gd["inode_bitmap"])[:fs.inodes_per_group // 8])
                if (c & 0xFFFF) != (gd["ib_csum"] & 0xFFFF) or (fs.desc_size >= 64 and c != gd["ib_csum"]):
                    add("csum_bitmap", "group %d inode bitmap checksum" % g)
        elif check_csums and fs.has_gdt_csum:
            raw = gd["raw"]
            c = _crc16(_crc16(_crc16(0xFFFF, fs.uuid), struct.pack("<I", g)), raw[:30] + raw[32:])
            if c != gd["checksum"]:
                add("csum_gd", "group %d descriptor crc16" % g)
    if check_csums and fs.has_csum and crc32c(0xFFFFFFFF, fs.sb_raw[:0x3FC]) != fs.sb_checksum:
        add("csum_sb", "superblock checksum")
    return bad


# ---------------------------------------------------------------------------
# directory hashes (the ext2/3/4 on-disk definition: legacy, half_md4, tea; signed or unsigned char), written from the
# format description; props/c10.py compares them with debugfs dx_hash on every run
M32 = 0xFFFFFFFF


def _str2hashbuf(msg, num, unsigned):
    ln = len(msg)
    pad = (ln | (ln << 8)) & M32
    pad = (pad | (pad << 16)) & M32
    out = []
    val = pad
    if ln > num * 4:
        ln = num * 4
    for i in range(ln):
        if i % 4 == 0:
            val = pad
        c = msg[i] if unsigned or msg[i] < 128 else msg[i] - 256
        val = (c + (val << 8)) & M32
        if i % 4 == 3:
            out.append(val)
            val = pad
            num -= 1
    num -= 1
    if num >= 0:
        out.append(val)
    while True:
        num -= 1
        if num < 0:
            break
        out.append(pad)
    return out


def _tea(buf, inp):
    s_ = 0
    b0, b1 = buf[0], buf[1]
    a, b, c, d = inp[0], inp[1], inp[2], inp[3]
    for _ in range(16):
        s_ = (s_ + 0x9E3779B9) & M32
        b0 = (b0 + ((((b1 << 4) + a) & M32) ^ ((b1 + s_) & M32) ^ (((b1 >> 5) + b) & M32))) & M32
        b1 = (b1 + ((((b0 << 4) + c) & M32) ^ ((b0 + s_) & M32) ^ (((b0 >> 5) + d) & M32))) & M32
    buf[0] = (buf[0] + b0) & M32
    buf[1] = (buf[1] + b1) & M32


def _half_md4(buf, inp):
    a, b, c, d = buf
    F = lambda x, y, z: z ^ (x & (y ^ z))
    G = lambda x, y, z: ((x & y) + ((x ^ y) & z)) & M32
    H = lambda x, y, z: x ^ y ^ z
    rol = lambda v, s: ((v << s) | (v >> (32 - s))) & M32
    K2, K3 = 0o13240474631, 0o15666365641

    def rnd(f, a, b, c, d, x, s):
        return rol((a + f(b, c, d) + x) & M32, s)
    for (f, k, order, shifts) in ((F, 0, [0, 1, 2, 3, 4, 5, 6, 7], [3, 7, 11, 19]),
                                  (G, K2, [1, 3, 5, 7, 0, 2, 4, 6], [3, 5, 9, 13]),
                                  (H, K3, [3, 7, 2, 6, 1, 5, 0, 4], [3, 9, 11, 15])):
        for j, x in enumerate(order):
            v = (inp[x] + k) & M32
            if j % 4 == 0:
                a = rnd(f, a, b, c, d, v, shifts[0])
            elif j % 4 == 1:
                d = rnd(f, d, a, b, c, v, shifts[1])
            elif j % 4 == 2:
                c = rnd(f, c, d, a, b, v, shifts[2])
            else:
                b = rnd(f, b, c, d, a, v, shifts[3])
    buf[0] = (buf[0] + a) & M32
    buf[1] = (buf[1] + b) & M32
    buf[2] = (buf[2] + c) & M32
    buf[3] = (buf[3] + d) & M32


def dirhash(version, name, seed=None, unsigned=False):
    """(major hash with the low bit cleared, minor hash); version 0 legacy, 1 half_md4, 2 tea (3..5: the unsigned variants)"""
    if version in (3, 4, 5):
        version -= 3
        unsigned = True
    buf = [0x67452301, 0xefcdab89, 0x98badcfe, 0x10325476]
    if seed and any(seed):
        buf = list(seed)
    minor = 0
    if version == 0:
        h0, h1 = 0x12a3fe2d, 0x37abe8f9
        for ch in name:
            c = ch if unsigned or ch < 128 else ch - 256
            h = (h1 + (h0 ^ ((c * 7152373) & M32))) & M32
            if h & 0x80000000:
                h = (h - 0x7fffffff) & M32
            h1, h0 = h0, h
        major = (h0 << 1) & M32
    elif version == 1:
        p_ = name
        while True:
            _half_md4(buf, _str2hashbuf(p_, 8, unsigned))
            p_ = p_[32:]
            if not p_:
                break
        major, minor = buf[1], buf[2]
    elif version == 2:
        p_ = name
        while True:
            _tea(buf, _str2hashbuf(p_, 4, unsigned))
            p_ = p_[16:]
            if not p_:
                break
        major, minor = buf[0], buf[1]
    else:
        raise FormatError("hash version %d not supported" % version)
    return major & ~1 & M32, minor


def htree_problems(fs, ino, inode=None, fmap=None):
    """names of an indexed directory that lie outside the hash range of the leaf they are stored in"""
    inode = inode or fs.inode(ino)
    if not inode["flags"] & INDEX_FL or inode["flags"] & (INLINE_DATA_FL | 0x800 | 0x40000000):     # encrypted / casefolded: siphash
        return []
    if fmap is None:
        fmap, _ = fs.file_map(ino, inode)
    if 0 not in fmap:
        return []
    root = fs.block(fmap[0][0])
    if struct.unpack_from("<I", root, 0x18)[0] != 0:
        return []
    version, info_len, levels = root[0x1C], root[0x1D], root[0x1E]
    if version > 5 or levels > 3:
        return []
    sflags = struct.unpack_from("<I", fs.sb_raw, 0x160)[0]
    unsigned = version <= 2 and bool(sflags & 2)
    seed = struct.unpack_from("<4I", fs.sb_raw, 0xEC)

    def entries(raw, off):
        limit, count = struct.unpack_from("<HH", raw, off)
        if count > limit or off + 8 * count > len(raw) or count == 0:
            raise FormatError("count/limit")
        out = [(0, struct.unpack_from("<I", raw, off + 4)[0] & 0x0FFFFFFF)]
        for k in range(1, count):
            h, b = struct.unpack_from("<II", raw, off + 8 * k)
            out.append((h, b & 0x0FFFFFFF))
        return out
    bad = []

    def walk(ents, level, lo, hi):
        for k, (h, b) in enumerate(ents):
            l_ = lo if k == 0 else h
            h_ = ents[k + 1][0] if k + 1 < len(ents) else hi
            if b not in fmap:
                continue
            raw = fs.block(fmap[b][0])
            if level < levels:
                walk(entries(raw, 8), level + 1, l_, h_)
            else:
                for (o, ci, rl, nl, ft, name) in fs.dir_block_entries(raw):
                    if not ci or name in (b".", b".."):
                        continue
                    hv = dirhash(version, name, seed, unsigned)[0]
                    if hv < (l_ & ~1) or (h_ is not None and hv > (h_ & ~1)):
                        bad.append("inode %d: name %r (hash 0x%08x) in leaf block %d whose range is 0x%08x..%s" % (
                            ino, name[:40], hv, b, l_, "0x%08x" % h_ if h_ is not None else "end"))
                        if len(bad) >= 3:
                            return
    try:
        walk(entries(root, 0x18 + info_len), 0, 0, None)
    except (FormatError, struct.error, IndexError):
        return []
    return bad

# populated filesystems for the tool-level properties (C07 C08 C11 C18 C19)
import os, shutil, hashlib
import e2v

UUID = "5a5a5a5a-1111-2222-3333-444444444444"
HSEED = "01234567-89ab-cdef-0123-456789abcdef"


def host_files(work, seed):
    """deterministic host-side data files used by the debugfs population scripts"""
    os.makedirs(work, exist_ok=True)
    r = e2v.rng(seed, "hostfiles")
    out = {}
    for name, size in (("tiny", 37), ("small", 600), ("mid", 30000), ("big", 400000), ("huge", 2500000)):
        p = os.path.join(work, "host_%s_%d" % (name, seed))
        if not os.path.exists(p) or os.path.getsize(p) != size:
            with open(p, "wb") as f:
                f.write(r.randbytes(size))
        out[name] = p
    return out


import hashlib as _h
_SELF = _h.sha256(open(__file__, 'rb').read()).hexdigest()[:12]      # a change of the population script invalidates cached images


def populate_script(hf, r, fill_bytes, nfiles=40, xattrs=True, special=True, sparse=True, filler=0, ndirs=0, ea_high=0):
    """debugfs commands creating directories (one large enough for an htree), regular files up to
    fill_bytes in total, a fragmented/sparse file, symlinks, hard links, special files, xattrs"""
    cmds = ["mkdir d1", "mkdir d1/sub", "mkdir big", "mkdir empty", "mkdir d1/sub/x", "mkdir d1/sub/y"]
    late = []
    names = []
    for i in range(nfiles):
        names.append("big/f_%03d_%s" % (i, "n" * r.randint(0, 30)))
        c = "write %s %s" % (hf["tiny"] if i % 7 == 0 and not filler else "/dev/null", names[-1])
        (late if filler else cmds).append(c)
    if filler:
        late += ["symlink big/sl_%02d /t%d" % (i, i) for i in range(8)]
        # small directories (inline with inline_data): an early one that names late inodes, and a late one
        # a late directory of several blocks, one of which is emptied again (every record unused)
        big = ["mkdir d1/latebig"] + ["write /dev/null d1/latebig/%s_%02d" % ("L" * 90, i) for i in range(28)]
        big += ["rm d1/latebig/%s_%02d" % ("L" * 90, i) for i in range(6, 21)]
        late[0:0] = big
        late[0:0] = ["write /dev/null d1/sub/x/late_file", "symlink d1/sub/x/late_link /y", "mkdir d1/late", "write %s d1/late/a" % hf["tiny"], "write /dev/null d1/late/b"]
    used = 0
    i = 0
    sizes = {"small": 600, "mid": 30000, "big": 400000, "huge": 2500000}
    while True:
        cands = [k for k in sizes if used + sizes[k] <= fill_bytes]
        if not cands or i > 400:
            break
        k = r.choice(cands[-2:])
        cmds.append("write %s d1/data_%03d" % (hf[k], i))
        used += sizes[k]
        i += 1
    cmds.append("write %s d1/plain" % hf["mid"])
    if sparse:
        cmds.append("write %s d1/frag" % hf["mid"])
        for k2 in range(1, 26, 2):
            cmds.append("punch d1/frag %d %d" % (k2, k2))
    cmds += ["write %s d1/sub/deep" % hf["small"], "symlink d1/fast /short", "symlink d1/slow /" + "L" * 150, "link d1/plain d1/hardlink"]
    if special:
        cmds += ["mknod d1/fifo p", "mknod d1/chr c 4 5", "mknod d1/blk b 8 1"]
    if ea_high and not filler:
        # the low block groups are full while the attribute blocks are allocated: files with low inode numbers own
        # attribute blocks far up the device (a shrink has to move the block, not the inode)
        cmds += ["write /dev/null blockfill", "fallocate blockfill 0 %d" % ea_high]
    if xattrs:
        cmds += ["ea_set d1/plain user.big %s" % ("v" * 200), "ea_set d1 user.k v", "ea_set d1/sub/deep user.a 1"]
        # attributes large enough for an external block on inodes that own no data blocks
        cmds += ["ea_set d1/fast user.onlink %s" % ("s" * 300)]
        if special:
            cmds += ["ea_set d1/fifo user.onfifo %s" % ("f" * 300), "ea_set d1/chr user.onchr %s" % ("c" * 300)]
    if ea_high and not filler:
        cmds += ["ea_set %s user.high%d %s" % (nm, i, chr(65 + i % 26) * (150 + 7 * i)) for i, nm in enumerate(names[:14])]
        cmds.append("rm blockfill")
    for i in range(ndirs):
        cmds.append("mkdir many_%04d" % i)
    if filler:
        # fillers take the low inode numbers, the block-less files created after them land in high groups;
        # removing the fillers leaves in-use inodes only there (a shrink must renumber them)
        cmds.append("mkdir filler")
        cmds += ["write /dev/null filler/x%04d" % i for i in range(filler)]
        cmds += late
        cmds += ["rm filler/x%04d" % i for i in range(filler)]
        cmds.append("rmdir filler")
    # files and a directory that are gone again: released inode slots that are not all zeroes
    cmds += ["write %s d1/gone1" % hf["small"], "write %s d1/gone2" % hf["tiny"], "mkdir d1/gonedir", "rm d1/gone1", "rm d1/gone2", "rmdir d1/gonedir"]
    cmds += ["set_inode_field d1/plain mode 0104755", "set_inode_field d1/sub/deep uid 1234", "set_inode_field d1/sub/deep gid 4321"]
    return cmds


def make_fs(src, path, opts, size, seed, fill=0.3, nfiles=40, populate=True, check=True, index=False, **kw):
    """mke2fs + population; returns (ok, message)"""
    T = lambda p: os.path.join(src, p)
    env = e2v.tool_env(src, E2FSPROGS_FAKE_TIME="1700000000")
    if os.path.exists(path):
        os.unlink(path)
    rc, out = e2v.sh([T("misc/mke2fs"), "-q", "-F"] + opts + ["-U", UUID, "-E", "hash_seed=" + HSEED, path, str(size)], env=env, timeout=300)
    if rc != 0:
        return False, "mke2fs: " + out[-300:]
    if populate:
        hf = host_files(os.path.join(e2v.SCRATCH, "hostfiles"), 1)
        r = e2v.rng(seed, "populate")
        nbytes = os.path.getsize(path)
        ff = kw.pop("filler_fraction", 0)
        if ff:
            import extfmt
            kw["filler"] = min(int(extfmt.Fs(path).inodes_count * ff), 6000)
        eh = kw.pop("ea_high_fraction", 0)
        if eh:
            import extfmt
            kw["ea_high"] = int(extfmt.Fs(path).blocks_count * eh)
        cmds = populate_script(hf, r, int(nbytes * fill), nfiles=nfiles, **kw)
        rc, out = e2v.sh([T("debugfs/debugfs"), "-w", "-f", "-", path], input=("\n".join(cmds) + "\n").encode(), env=env, timeout=600)
        # debugfs 'link' leaves the link count to e2fsck (documented); normalise once
        # index=True: also build htree indexes (libext2fs itself only makes linear directories)
        e2v.sh([T("e2fsck/e2fsck"), "-fyD" if index else "-fy", path], env=env, timeout=300)
    if check:
        rc, out = e2v.sh([T("e2fsck/e2fsck"), "-fn", path], env=env, timeout=300)
        if rc != 0:
            return False, "base not clean: " + out[-400:]
    return True, ""


def cached_fs(src, work, name, opts, size, seed, **kw):
    """make_fs cached per scratch-build key; returns path or raises"""
    os.makedirs(work, exist_ok=True)
    img = os.path.join(work, "base_%s_%s_%d.img" % (name, size, seed))
    with e2v.Lock(img + ".lock"):
        keyf = img + ".key"
        k = open(os.path.join(e2v.SCRATCH, "std", "KEY")).read() + repr(sorted(kw.items())) + repr(opts) + _SELF
        if os.path.exists(img) and os.path.exists(keyf) and open(keyf).read() == k:
            return img
        ok, msg = make_fs(src, img, opts, size, seed, **kw)
        if not ok:
            raise RuntimeError("cannot build %s: %s" % (name, msg))
        open(keyf, "w").write(k)
        return img

# Structured corruption operators over ext2/3/4 images (byte patches computed with the
# independent reader), and image building helpers for the e2fsck campaigns (C01, C02, C05, C06).
import os, struct, shutil
import e2v, extfmt
from extfmt import *

IMG_CONFIGS = [
    ("ext4_1k", ["-t", "ext4", "-b", "1024", "-g", "2048", "-I", "256", "-N", "512"], "8M"),
    ("ext4_4k", ["-t", "ext4", "-b", "4096", "-I", "256"], "24M"),
    ("ext4_nocsum", ["-t", "ext4", "-b", "1024", "-g", "4096", "-O", "^metadata_csum,^64bit,uninit_bg", "-I", "128", "-N", "512"], "8M"),
    ("ext3", ["-t", "ext3", "-b", "1024", "-g", "2048", "-N", "512"], "8M"),
    ("ext2_noflex", ["-t", "ext2", "-b", "2048", "-O", "^resize_inode", "-N", "384"], "8M"),
    ("ext4_2k_64", ["-t", "ext4", "-b", "2048", "-g", "4096", "-O", "64bit,metadata_csum,^flex_bg", "-I", "512", "-N", "512"], "12M"),
    # meta_bg with three descriptor blocks (48 groups, 16 descriptors per block)
    ("ext4_metabg48", ["-t", "ext4", "-b", "1024", "-g", "256", "-O", "meta_bg,^resize_inode", "-I", "256", "-N", "768"], "12M"),
    # 128-byte group descriptors: the checksum covers more than struct ext4_group_desc
    ("ext4_desc128", ["-t", "ext4", "-b", "1024", "-g", "2048", "-O", "64bit,metadata_csum", "-E", "desc_size=128", "-I", "256", "-N", "512"], "8M"),
    # 46 inode-table blocks per group (not a multiple of the scan's 8-block read batch), inodes in use in several groups
    ("ext4_itb46", ["-t", "ext4", "-b", "1024", "-I", "256", "-N", "736"], "32M"),
    # more than 500 attribute blocks, each shared by two inodes, met by the inode scan in descending block order
    ("ext4_sharedea", ["-t", "ext4", "-b", "1024", "-I", "128", "-N", "2560", "-O", "^metadata_csum,^64bit,uninit_bg"], "16M"),
]


def build_image(src, work, name, opts, size, seed, nfiles=60):
    """mke2fs + debugfs population + e2fsck -fyD; cached per scratch-build key"""
    os.makedirs(work, exist_ok=True)
    img = os.path.join(work, "base_%s_%d.img" % (name, seed))
    with e2v.Lock(img + ".lock"):
        return _build_image(src, work, name, opts, size, seed, nfiles, img)


def _build_image(src, work, name, opts, size, seed, nfiles, img):
    keyf = img + ".key"
    k = open(os.path.join(e2v.SCRATCH, "std", "KEY")).read()
    if os.path.exists(img) and os.path.exists(keyf) and open(keyf).read() == k:
        return img
    if os.path.exists(img):
        os.unlink(img)
    T = lambda p: os.path.join(src, p)
    env = e2v.tool_env(src, E2FSPROGS_FAKE_TIME="1700000000")
    eopt = "hash_seed=01234567-89ab-cdef-0123-456789abcdef"
    mopts = list(opts)
    if "-E" in mopts:       # mke2fs keeps only the last -E
        j = mopts.index("-E")
        eopt = mopts[j + 1] + "," + eopt
        del mopts[j:j + 2]
    rc, out = e2v.sh([T("misc/mke2fs"), "-q", "-F"] + mopts + ["-U", "5a5a5a5a-1111-2222-3333-444444444444", "-E", eopt, img, size], env=env, timeout=120)
    if rc != 0:
        raise RuntimeError("mke2fs failed for %s: %s" % (name, out[-300:]))
    r = e2v.rng(seed, "imgbuild", name)
    data = os.path.join(work, "data_%s_%d" % (name, seed))
    with open(data, "wb") as f:
        f.write(bytes(r.getrandbits(8) for _ in range(30000)))
    small = os.path.join(work, "small_%s_%d" % (name, seed))
    with open(small, "wb") as f:
        f.write(b"hello world\n" * 50)
    cmds = ["mkdir d1", "mkdir d1/sub", "mkdir big", "mkdir empty"]
    if name == "ext4_itb46":
        nfiles = 420
    for i in range(nfiles):
        cmds.append("write %s big/f_%03d_%s" % (small if i % 7 == 0 else "/dev/null", i, "n" * r.randint(0, 30)))
    cmds += ["write %s d1/frag" % data]
    for k2 in range(1, 26, 2):
        cmds.append("punch d1/frag %d %d" % (k2, k2))
    cmds += ["write %s d1/plain" % data, "write %s d1/sub/deep" % small, "symlink d1/fast /short", "symlink d1/slow /" + "L" * 150,
             "ea_set d1/plain user.big %s" % ("v" * 200), "ea_set d1 user.k v", "mknod d1/fifo p", "link d1/plain d1/hardlink",
             "mkdir d1/sub/x", "mkdir d1/sub/y"]
    e2v.sh([T("debugfs/debugfs"), "-w", "-f", "-", img], input=("\n".join(cmds) + "\n").encode(), env=env, timeout=300)
    if name == "ext4_sharedea":
        # inode order: 100 sharers whose owners come last ("open" entries of e2fsck's reference list), 400 adjacent (sharer, owner) pairs,
        # 30 more adjacent pairs; block order (order of the ea_set commands): owners of the open ones, pairs 0..199, the 30 late pairs, pairs 200..399
        # - when the 501st block is met the list is full of finished entries and the new key falls into their middle
        mk = ["mkdir sx"] + ["write /dev/null sx/ob%03d" % i for i in range(100)]
        for j in range(400):
            mk += ["write /dev/null sx/pb%03d" % j, "write /dev/null sx/pa%03d" % j]
        for j in range(30):
            mk += ["write /dev/null sx/mb%03d" % j, "write /dev/null sx/ma%03d" % j]
        mk += ["write /dev/null sx/oa%03d" % i for i in range(100)]
        order = ["oa%03d" % i for i in range(100)] + ["pa%03d" % j for j in range(200)] + ["ma%03d" % j for j in range(30)] + ["pa%03d" % j for j in range(200, 400)]
        mk += ["ea_set sx/%s user.shared %s" % (nm, (nm + "_") * 12) for nm in order]
        e2v.sh([T("debugfs/debugfs"), "-w", "-f", "-", img], input=("\n".join(mk) + "\n").encode(), env=env, timeout=600)
    rc, out = e2v.sh([T("e2fsck/e2fsck"), "-fyD", img], env=env, timeout=300)
    if name == "ext4_sharedea":
        share_xattr_blocks(img)
    rc, out = e2v.sh([T("e2fsck/e2fsck"), "-fn", img], env=env, timeout=300)
    if rc != 0:
        raise RuntimeError("base image %s not clean: %s" % (name, out[-400:]))
    open(keyf, "w").write(k)
    return img


def share_xattr_blocks(img):
    """every sharer sx/?b<n> gets the attribute block of its owner sx/?a<n>: reference count 2 on every block"""
    fs = Fs(img)
    d = bytearray(fs.d)
    root = {e[0]: e[1] for e in fs.dir_entries(2)}
    sx = {e[0]: e[1] for e in fs.dir_entries(root[b"sx"])}
    for nm, b in sx.items():
        if len(nm) != 5 or nm[1:2] != b"b":
            continue
        a = sx.get(nm[:1] + b"a" + nm[2:])
        blk = fs.inode(a)["file_acl"] if a else 0
        if not blk:
            continue
        struct.pack_into("<I", d, blk * fs.bs + 4, 2)                       # h_refcount
        loc = fs.inode_loc(b)
        struct.pack_into("<I", d, loc + 104, blk)                           # i_file_acl
        struct.pack_into("<I", d, loc + 28, struct.unpack_from("<I", d, loc + 28)[0] + fs.bs // 512)   # i_blocks
    open(img, "wb").write(d)


# ---------------------------------------------------------------- checksum repair (so that damage is structural)
def _seed(fs):
    return fs.checksum_seed if fs.incompat & INCOMPAT_CSUM_SEED else crc32c(0xFFFFFFFF, fs.uuid)


def fix_inode_csum(fs, d, ino):
    if not fs.has_csum:
        return
    a = fs.inode_loc(ino)
    raw = bytearray(d[a:a + fs.inode_size])
    extra = struct.unpack_from("<H", raw, 128)[0] if fs.inode_size > 128 else 0
    has_hi = fs.inode_size > 128 and extra >= 4
    raw[124:126] = b"\0\0"
    if has_hi:
        raw[130:132] = b"\0\0"
    c = crc32c(crc32c(crc32c(_seed(fs), struct.pack("<I", ino)), raw[100:104]), bytes(raw))
    struct.pack_into("<H", d, a + 124, c & 0xFFFF)
    if has_hi:
        struct.pack_into("<H", d, a + 130, c >> 16)


def gd_loc(fs, g):
    return fs.off + fs.desc_block_loc(g // fs.desc_per_block) * fs.bs + (g % fs.desc_per_block) * fs.desc_size


def fix_gd_csum(fs, d, g):
    a = gd_loc(fs, g)
    raw = bytearray(d[a:a + fs.desc_size])
    if fs.has_csum:
        raw[30:32] = b"\0\0"
        c = crc32c(crc32c(_seed(fs), struct.pack("<I", g)), bytes(raw)) & 0xFFFF
        struct.pack_into("<H", d, a + 30, c)
    elif fs.has_gdt_csum:
        c = extfmt._crc16(extfmt._crc16(extfmt._crc16(0xFFFF, fs.uuid), struct.pack("<I", g)), bytes(raw[:30] + raw[32:]))
        struct.pack_into("<H", d, a + 30, c)


def fix_bitmap_csum(fs, d, g, which):
    if not fs.has_csum:
        return
    gd = fs.groups[g]
    a = gd_loc(fs, g)
    if which == "bb":
        c = crc32c(_seed(fs), bytes(d[gd["block_bitmap"] * fs.bs: gd["block_bitmap"] * fs.bs + fs.clusters_per_group // 8]))
        struct.pack_into("<H", d, a + 0x18, c & 0xFFFF)
        if fs.desc_size >= 64:
            struct.pack_into("<H", d, a + 0x38, c >> 16)
    else:
        c = crc32c(_seed(fs), bytes(d[gd["inode_bitmap"] * fs.bs: gd["inode_bitmap"] * fs.bs + fs.inodes_per_group // 8]))
        struct.pack_into("<H", d, a + 0x1A, c & 0xFFFF)
        if fs.desc_size >= 64:
            struct.pack_into("<H", d, a + 0x3A, c >> 16)
    fix_gd_csum(fs, d, g)


def fix_dirblock_csum(fs, d, ino, gen, pblk):
    if not fs.has_csum:
        return
    a = fs.off + pblk * fs.bs
    blk = bytes(d[a:a + fs.bs])
    ti, trl, tnl, tft = struct.unpack_from("<IHBB", blk, fs.bs - 12)
    if (ti, trl, tnl, tft) == (0, 12, 0, 0xDE):
        c = crc32c(crc32c(crc32c(_seed(fs), struct.pack("<I", ino)), struct.pack("<I", gen)), blk[:fs.bs - 12])
        struct.pack_into("<I", d, a + fs.bs - 4, c)


def fix_sb_csum(fs, d):
    if fs.has_csum:
        struct.pack_into("<I", d, fs.off + 1024 + 0x3FC, crc32c(0xFFFFFFFF, bytes(d[fs.off + 1024: fs.off + 1024 + 0x3FC])))


# ---------------------------------------------------------------- operators
def regular_files(fs):
    return [i for i in fs.in_use_inodes() if i >= fs.first_ino and (fs.inode(i)["mode"] & 0xF000) == 0x8000]


def directories(fs):
    return [i for i in fs.in_use_inodes() if (i == 2 or i >= fs.first_ino) and (fs.inode(i)["mode"] & 0xF000) == 0x4000]


def op_bitmap_block(fs, d, r, keep_csum, which=None):
    """flip a block-bitmap bit: mark a used block free or a free block used"""
    g = r.randrange(fs.groups_count) if which is None else (fs.groups_count - 1 if which == "last" else 0)
    gd = fs.groups[g]
    if gd["flags"] & BG_BLOCK_UNINIT and fs.has_group_csum():
        g = 0
        gd = fs.groups[0]
    nb = min(fs.blocks_per_group, fs.blocks_count - fs.group_first_block(g))
    bit = r.randrange(nb)
    a = fs.off + gd["block_bitmap"] * fs.bs + (bit >> 3)
    d[a] ^= 1 << (bit & 7)
    if keep_csum:
        fix_bitmap_csum(fs, d, g, "bb")
    return "block bitmap of group %d, bit %d flipped" % (g, bit)


def op_bitmap_inode(fs, d, r, keep_csum, which=None):
    g = r.randrange(fs.groups_count) if which is None else (fs.groups_count - 1 if which == "last" else 0)
    gd = fs.groups[g]
    if gd["flags"] & BG_INODE_UNINIT and fs.has_group_csum():
        g, gd = 0, fs.groups[0]
    bit = r.randrange(fs.inodes_per_group)
    if g == 0 and bit < fs.first_ino - 1:
        bit = fs.first_ino + r.randrange(20)
    a = fs.off + gd["inode_bitmap"] * fs.bs + (bit >> 3)
    d[a] ^= 1 << (bit & 7)
    if keep_csum:
        fix_bitmap_csum(fs, d, g, "ib")
    return "inode bitmap of group %d, bit %d flipped" % (g, bit)


def op_bitmap_csum(fs, d, r, keep_csum, which=None):
    """the stored checksum of a bitmap is wrong while the bitmap and the descriptor's own checksum are right"""
    if not fs.has_csum:
        return "not applicable"
    which = which or r.choice(["ib", "bb", "bb_iuninit", "ib_buninit"])
    other = which.endswith("uninit")
    which = which[:2]
    flag = BG_INODE_UNINIT if which == "ib" else BG_BLOCK_UNINIT
    gs = [g for g in range(fs.groups_count) if not fs.groups[g]["flags"] & flag]
    if other:
        # prefer a group whose other bitmap is still marked uninitialised
        gs = [g for g in gs if fs.groups[g]["flags"] & (BG_INODE_UNINIT | BG_BLOCK_UNINIT)] or gs
    if not gs:
        return "not applicable"
    g = r.choice(gs)
    a = gd_loc(fs, g) + (0x1A if which == "ib" else 0x18)
    struct.pack_into("<H", d, a, struct.unpack_from("<H", d, a)[0] ^ r.choice([1, 0x8000, 0xFFFF, 0x0100]))
    fix_gd_csum(fs, d, g)
    return "group %d descriptor: %s bitmap checksum field changed, descriptor checksum valid" % (g, "inode" if which == "ib" else "block")


def op_gd_counts(fs, d, r, keep_csum, which=None):
    g = r.randrange(fs.groups_count) if which is None else (fs.groups_count - 1 if which == "last" else 0)
    a = gd_loc(fs, g)
    which = r.choice([(12, "free blocks"), (14, "free inodes"), (16, "used dirs")])
    v = struct.unpack_from("<H", d, a + which[0])[0]
    struct.pack_into("<H", d, a + which[0], (v + r.choice([1, 3, 0xFFFF])) & 0xFFFF)
    if keep_csum:
        fix_gd_csum(fs, d, g)
    return "group %d descriptor %s count changed" % (g, which[1])


def op_gd_location(fs, d, r, keep_csum):
    g = r.randrange(fs.groups_count)
    a = gd_loc(fs, g)
    which = r.choice([(0, "block bitmap"), (4, "inode bitmap"), (8, "inode table")])
    v = struct.unpack_from("<I", d, a + which[0])[0]
    struct.pack_into("<I", d, a + which[0], r.choice([v + 1, 0, fs.blocks_count + 5, v ^ 0x40]))
    if keep_csum:
        fix_gd_csum(fs, d, g)
    return "group %d descriptor %s location changed" % (g, which[1])


GD_VARIANTS = [("itable_zero_g0", "ext2_noflex"), ("itable_zero_g0", "ext4_1k"), ("itable_unused_huge", "ext4_metabg48"), ("itable_unused_huge", "ext4_1k"),
               ("bitmaps_zero_g0", "ext2_noflex"), ("itable_zero_last", "ext4_1k"), ("itable_unused_huge", "ext4_2k_64"), ("free_counts_huge", "ext4_metabg48")]


def op_gd_variant(fs, d, r, keep_csum, which="itable_zero_g0"):
    """descriptor fields at values the tools meet only on damaged filesystems (checksums valid): a table location of 0 is the
    'missing, to be relocated' marker of e2fsck; bg_itable_unused beyond the group size is subtracted from the table length by e2image"""
    g = fs.groups_count - 1 if which.endswith("_last") else 0
    if which == "itable_unused_huge":
        g = r.randrange(fs.groups_count)
    a = gd_loc(fs, g)
    if which.startswith("itable_zero"):
        struct.pack_into("<I", d, a + 8, 0)
    elif which == "bitmaps_zero_g0":
        struct.pack_into("<II", d, a, 0, 0)
    elif which == "itable_unused_huge":
        struct.pack_into("<H", d, a + 28, 0xFFFF)
    elif which == "free_counts_huge":
        struct.pack_into("<HHH", d, a + 12, 0xFFFF, 0xFFFF, 0xFFFF)
    fix_gd_csum(fs, d, g)
    return "group %d descriptor: %s (checksum re-computed)" % (g, which)


EXTENT_CYCLE_VARIANTS = [("two", "ext4_1k"), ("fanout2", "ext4_1k"), ("two", "ext4_nocsum"), ("self_deep", "ext4_1k")]


def op_extent_cycle(fs, d, r, keep_csum, which="two"):
    """index blocks of an extent tree that lead to each other (A -> B -> A) under a root that claims a huge depth, block
    checksums valid: a walk that trusts the claimed depth recurses once per level (two: stack exhaustion) or visits
    2^depth nodes (fanout2)"""
    cands = []
    for i in regular_files(fs):
        ino = fs.inode(i)
        if not ino["flags"] & EXTENTS_FL or ino["flags"] & INLINE_DATA_FL:
            continue
        try:
            exts, nodes = fs.extent_tree(i, ino)
        except FormatError:
            continue
        if nodes and len(exts) >= 2:
            cands.append((i, exts, nodes))
    if not cands:
        raise FormatError("no file with an extent block")
    i, exts, nodes = cands[0]
    gen = fs.inode(i)["generation"]
    A = nodes[0][0]
    B = exts[0][1]                       # a data block of the same file becomes the second index block
    nmax = (fs.bs - 12) // 12

    def node(target, fan):
        b = bytearray(fs.bs)
        struct.pack_into("<HHHHI", b, 0, 0xF30A, fan, nmax, 1, 0)
        for k in range(fan):
            struct.pack_into("<IIHH", b, 12 + 12 * k, k * 1000, target & 0xFFFFFFFF, (target >> 32) & 0xFFFF, 0)
        if fs.has_csum:
            c = crc32c(crc32c(crc32c(_seed(fs), struct.pack("<I", i)), struct.pack("<I", gen)), bytes(b[:12 + 12 * nmax]))
            struct.pack_into("<I", b, 12 + 12 * nmax, c)
        return b
    fan = 2 if which == "fanout2" else 1
    if which == "self_deep":
        d[A * fs.bs:(A + 1) * fs.bs] = node(A, 1)
    else:
        d[A * fs.bs:(A + 1) * fs.bs] = node(B, fan)
        d[B * fs.bs:(B + 1) * fs.bs] = node(A, fan)
    a = fs.inode_loc(i) + 40
    struct.pack_into("<HHHHI", d, a, 0xF30A, 1, 4, 60000 if which != "fanout2" else 40, 0)
    struct.pack_into("<IIHH", d, a + 12, 0, A & 0xFFFFFFFF, (A >> 32) & 0xFFFF, 0)
    fix_inode_csum(fs, d, i)
    return "inode %d: extent index blocks %d and %d lead to each other (%s), the root claims depth %d" % (i, A, B, which, 60000 if which != "fanout2" else 40)


def op_inode_field(fs, d, r, keep_csum):
    cands = regular_files(fs) + directories(fs)
    ino = r.choice(cands)
    a = fs.inode_loc(ino)
    k = r.choice(["links", "links", "size", "blocks", "mode", "dtime", "flags", "file_acl", "uid"])
    if k == "links":
        v = struct.unpack_from("<H", d, a + 26)[0]
        struct.pack_into("<H", d, a + 26, max(0, v + r.choice([1, -1, 5])) & 0xFFFF)
    elif k == "size":
        v = struct.unpack_from("<I", d, a + 4)[0]
        struct.pack_into("<I", d, a + 4, r.choice([0, v + fs.bs * 3, v // 2, 0xFFFFFFF0]))
    elif k == "blocks":
        v = struct.unpack_from("<I", d, a + 28)[0]
        struct.pack_into("<I", d, a + 28, (v + r.choice([2, 8, -2])) & 0xFFFFFFFF)
    elif k == "mode":
        v = struct.unpack_from("<H", d, a)[0]
        struct.pack_into("<H", d, a, (v & 0x0FFF) | r.choice([0x4000, 0x8000, 0xA000, 0x2000, 0x0000, 0x7000]))
    elif k == "dtime":
        struct.pack_into("<I", d, a + 20, 1600000000)
    elif k == "flags":
        v = struct.unpack_from("<I", d, a + 32)[0]
        struct.pack_into("<I", d, a + 32, v ^ r.choice([EXTENTS_FL, INDEX_FL, 0x10, 0x20, HUGE_FILE_FL]))
    elif k == "file_acl":
        struct.pack_into("<I", d, a + 104, r.choice([1, fs.blocks_count + 7, fs.groups[0]["inode_table"], 3]))
    else:
        struct.pack_into("<H", d, a + 24, 4242)      # harmless: gid change
    if keep_csum:
        fix_inode_csum(fs, d, ino)
    return "inode %d field %s changed" % (ino, k)


def op_extent(fs, d, r, keep_csum):
    cands = [i for i in regular_files(fs) + directories(fs) if fs.inode(i)["flags"] & EXTENTS_FL and not fs.inode(i)["flags"] & INLINE_DATA_FL]
    if not cands:
        return op_inode_field(fs, d, r, keep_csum)
    ino = r.choice(cands)
    a = fs.inode_loc(ino) + 40
    magic, entries, mx, depth = struct.unpack_from("<HHHH", d, a)
    k = r.choice(["magic", "entries", "start", "len", "lblk", "depth", "dup"])
    if entries == 0 and k in ("start", "len", "lblk", "dup"):
        k = "magic"
    if k == "magic":
        struct.pack_into("<H", d, a, 0xF30B)
    elif k == "entries":
        struct.pack_into("<H", d, a + 2, mx + 3)
    elif k == "depth":
        struct.pack_into("<H", d, a + 6, depth + 1)
    else:
        e = a + 12 + 12 * r.randrange(entries)
        if depth == 0:
            if k == "start":
                struct.pack_into("<I", d, e + 8, r.choice([fs.blocks_count + 10, fs.groups[0]["inode_table"] + 1, 0]))
            elif k == "len":
                struct.pack_into("<H", d, e + 4, r.choice([0, 40000, 32768]))
            elif k == "lblk":
                struct.pack_into("<I", d, e, 0xFFFFFF00)
            else:
                other = r.choice(cands)
                ex, _ = fs.extent_tree(other)
                if ex:
                    struct.pack_into("<I", d, e + 8, ex[0][1] & 0xFFFFFFFF)
        else:
            struct.pack_into("<I", d, e + 4, r.choice([fs.blocks_count + 3, fs.groups[0]["block_bitmap"], 0]))
    if keep_csum:
        fix_inode_csum(fs, d, ino)
    return "inode %d extent %s changed" % (ino, k)


ORPHAN_VARIANTS = ["entries", "magic", "start", "len", "dirty_block0", "dirty_block_mid", "dirty_two_blocks"]


def op_orphan_file(fs, d, r, keep_csum, which="entries"):
    """the extent map of the orphan file inode (s_orphan_file_inum), checksums valid: e2fsck clears or truncates the inode in
    pass 1 and has to recreate the file at the end of the run"""
    ino = struct.unpack_from("<I", fs.sb_raw, 0x280)[0]
    if not fs.compat & 0x1000 or not ino:
        raise FormatError("no orphan file")
    a = fs.inode_loc(ino) + 40
    magic, entries, mx, depth = struct.unpack_from("<HHHH", d, a)
    if which.startswith("dirty"):
        # a stale entry (the number of a free inode) in an orphan block while orphan_present is clear, block checksum valid:
        # the end-of-run check has to rewrite that block and leave every other block as it is
        m, _ = fs.file_map(ino)
        blks = [m[k][0] for k in sorted(m)]
        gen = fs.inode(ino)["generation"]
        pick = {"dirty_block0": [0], "dirty_block_mid": [len(blks) // 2], "dirty_two_blocks": [1, len(blks) - 2]}[which]
        for k in pick:
            o = blks[k] * fs.bs
            struct.pack_into("<I", d, o + 4 * (3 + k), fs.inodes_count - 1 - k)
            if fs.has_csum:
                n = (fs.bs - 8) // 4 * 4
                c = crc32c(crc32c(crc32c(crc32c(_seed(fs), struct.pack("<I", ino)), struct.pack("<I", gen)), struct.pack("<Q", blks[k])), bytes(d[o:o + n]))
                struct.pack_into("<I", d, o + fs.bs - 4, c)
        return "orphan file inode %d: stale entry in block(s) %s" % (ino, pick)
    if which == "file_acl":
        struct.pack_into("<I", d, fs.inode_loc(ino) + 0x68, fs.blocks_count + 7)
        fix_inode_csum(fs, d, ino)
        return "orphan file inode %d: i_file_acl := %d (beyond the filesystem)" % (ino, fs.blocks_count + 7)
    if which == "entries":
        struct.pack_into("<H", d, a + 2, mx + 3)
        struct.pack_into("<I", d, a + 12 + 8, fs.blocks_count * 60 + 10)
    elif which == "magic":
        struct.pack_into("<H", d, a, 0xF30B)
        struct.pack_into("<I", d, a + 12 + 8, fs.blocks_count + 10)
    elif which == "start":
        struct.pack_into("<I", d, a + 12 + 8, fs.blocks_count + 10)
    else:
        struct.pack_into("<H", d, a + 12 + 4, 2)
    fix_inode_csum(fs, d, ino)
    return "orphan file inode %d extent %s changed" % (ino, which)


def op_dirent(fs, d, r, keep_csum):
    dirs = [i for i in directories(fs) if not fs.inode(i)["flags"] & INLINE_DATA_FL]
    ino = r.choice(dirs)
    inode = fs.inode(ino)
    m, _ = fs.file_map(ino, inode)
    lblks = [l for l in m if l * fs.bs < inode["size"]]
    if not lblks:
        return op_inode_field(fs, d, r, keep_csum)
    lblk = r.choice(lblks)
    pblk = m[lblk][0]
    try:
        ents = fs.dir_block_entries(fs.block(pblk))
    except FormatError:
        return op_inode_field(fs, d, r, keep_csum)
    real = [e for e in ents if e[1] != 0]
    if not real:
        return op_inode_field(fs, d, r, keep_csum)
    o, ci, rl, nl, ft, name = r.choice(real)
    a = fs.off + pblk * fs.bs + o
    k = r.choice(["inode_unused", "inode_range", "rec_len", "name_len", "ftype", "dotdot", "dup_name", "zero_inode"])
    if k == "inode_unused":
        struct.pack_into("<I", d, a, fs.inodes_count - 1)
    elif k == "inode_range":
        struct.pack_into("<I", d, a, fs.inodes_count + 100)
    elif k == "rec_len":
        struct.pack_into("<H", d, a + 4, r.choice([rl + 4, 6, rl - 4 if rl > 12 else 7, 0]))
    elif k == "name_len":
        d[a + 6] = min(255, rl)
    elif k == "ftype":
        d[a + 7] = r.choice([1, 2, 7, 9])
    elif k == "dotdot":
        struct.pack_into("<I", d, a, r.choice(dirs))
    elif k == "dup_name" and len(real) > 3:
        o2, ci2, rl2, nl2, ft2, name2 = real[-1]
        if nl2 <= nl and name2 not in (b".", b".."):
            d[a + 6] = nl2
            d[a + 8:a + 8 + nl2] = name2
    else:
        struct.pack_into("<I", d, a, 0)
    if keep_csum:
        fix_dirblock_csum(fs, d, ino, inode["generation"], pblk)
    return "directory %d block %d entry %r: %s" % (ino, lblk, name[:16], k)


def op_csum_only(fs, d, r, keep_csum):
    """change one byte of a checksummed object and leave the checksum as it is"""
    k = r.choice(["inode", "gd", "dir", "sb", "bitmap"])
    if k == "inode":
        ino = r.choice(regular_files(fs) + directories(fs))
        a = fs.inode_loc(ino) + r.choice([2, 8, 12, 16, 24])
        d[a] ^= 0x11
        return "inode %d: one covered byte changed, checksum untouched" % ino
    if k == "gd":
        g = r.randrange(fs.groups_count)
        d[gd_loc(fs, g) + r.choice([12, 14, 16, 18])] ^= 0x01
        return "group %d descriptor: one covered byte changed, checksum untouched" % g
    if k == "sb":
        d[fs.off + 1024 + r.choice([0x78 + 3, 0x88 + 1, 0x40])] ^= 0x20
        return "superblock: one covered byte changed, checksum untouched"
    if k == "bitmap":
        return op_bitmap_block(fs, d, r, False) + ", checksum untouched"
    return op_dirent(fs, d, r, False) + ", checksum untouched"


def op_inode_csum_late(fs, d, r, keep_csum, which=None):
    """one covered byte of an in-use inode outside the first block group changes, the checksum stays"""
    if not fs.has_csum:
        return "not applicable"
    cands = [i for i in regular_files(fs) + directories(fs) if (i - 1) // fs.inodes_per_group >= 1]
    if not cands:
        return "not applicable"
    ino = r.choice(cands)
    d[fs.inode_loc(ino) + r.choice([8, 9, 12, 16])] ^= 0x21
    return "inode %d (group %d): one covered byte changed, checksum untouched" % (ino, (ino - 1) // fs.inodes_per_group)


def op_noise(fs, d, r, keep_csum):
    """unstructured: a few random bytes in a metadata block"""
    g = r.randrange(fs.groups_count)
    gd = fs.groups[g]
    blk = r.choice([gd["inode_table"] + r.randrange(fs.itb_per_group), gd["block_bitmap"], gd["inode_bitmap"], fs.desc_block_loc(0)])
    a = fs.off + blk * fs.bs
    n = r.randint(1, 4)
    for _ in range(n):
        d[a + r.randrange(fs.bs)] = r.getrandbits(8)
    return "%d random bytes in metadata block %d" % (n, blk)


def blockmapped_files(fs):
    return [i for i in regular_files(fs) + directories(fs)
            if not fs.inode(i)["flags"] & (EXTENTS_FL | INLINE_DATA_FL) and struct.unpack_from("<I", fs.inode(i)["raw"], 40)[0]]


def op_block_pointer(fs, d, r, keep_csum, which=None):
    """a direct block pointer of a block-mapped file at the edges of the legal range"""
    cands = blockmapped_files(fs)
    if not cands:
        return op_extent_edge(fs, d, r, keep_csum, which)
    ino = r.choice(cands)
    a = fs.inode_loc(ino) + 40
    used = [k for k in range(12) if struct.unpack_from("<I", d, a + 4 * k)[0]]
    k = r.choice(used)
    v = {"end": fs.blocks_count, "end+1": fs.blocks_count + 1, "max": 0xFFFFFFFF, "first-1": max(fs.first_data_block - 1, 0),
         "itable": fs.groups[0]["inode_table"]}[which or r.choice(["end", "end", "end+1", "max", "first-1", "itable"])]
    struct.pack_into("<I", d, a + 4 * k, v)
    if keep_csum:
        fix_inode_csum(fs, d, ino)
    return "inode %d: block pointer %d set to %d (blocks count %d)" % (ino, k, v, fs.blocks_count)


def op_extent_edge(fs, d, r, keep_csum, which=None):
    """a leaf extent ending exactly at / one past the end of the filesystem"""
    cands = [i for i in regular_files(fs) if fs.inode(i)["flags"] & EXTENTS_FL and not fs.inode(i)["flags"] & INLINE_DATA_FL]
    cands = [i for i in cands if struct.unpack_from("<HHHH", fs.inode(i)["raw"], 40)[1] > 0 and struct.unpack_from("<HHHH", fs.inode(i)["raw"], 40)[3] == 0]
    if not cands:
        return "not applicable"
    ino = r.choice(cands)
    a = fs.inode_loc(ino) + 40
    e = a + 12
    ln = struct.unpack_from("<H", d, e + 4)[0] & 0x7FFF
    v = {"end": fs.blocks_count - ln + 1, "end+1": fs.blocks_count, "max": 0xFFFFFFF0, "first-1": 0, "itable": fs.groups[0]["inode_table"]}[which or r.choice(["end", "end+1"])]
    struct.pack_into("<I", d, e + 8, v & 0xFFFFFFFF)
    struct.pack_into("<H", d, e + 6, 0)
    if keep_csum:
        fix_inode_csum(fs, d, ino)
    return "inode %d: first extent moved to start %d, length %d (blocks count %d)" % (ino, v, ln, fs.blocks_count)


def op_extra_isize(fs, d, r, keep_csum, which=None):
    """an inode with the smallest extra size that still holds i_checksum_hi (4); optionally only the high half of its checksum is wrong"""
    if fs.inode_size < 256:
        return "not applicable"
    ino = r.choice(regular_files(fs))
    a = fs.inode_loc(ino)
    struct.pack_into("<H", d, a + 128, 4)
    d[a + 132:a + fs.inode_size] = bytes(fs.inode_size - 132)       # no in-inode attributes, no extra timestamps
    fix_inode_csum(fs, d, ino)
    if (which or r.choice(["hi", "ok"])) == "hi" and fs.has_csum:
        if struct.unpack_from("<H", d, a + 130)[0] == 0:
            return "not applicable"
        struct.pack_into("<H", d, a + 130, 0)       # the low half stays right whether or not the field itself is covered
        return "inode %d: i_extra_isize 4, high half of the checksum zeroed" % ino
    return "inode %d: i_extra_isize 4 (valid)" % ino


def op_append_block(fs, d, r, keep_csum, which=None):
    """one more block, exactly at / just past the end of the filesystem, appended to a file; i_blocks and
    i_size adjusted so that the out-of-range reference is the only thing wrong"""
    v = {"end": fs.blocks_count, "end+1": fs.blocks_count + 1}[which or r.choice(["end", "end+1"])]
    cands = [i for i in blockmapped_files(fs) if fs.inode(i)["mode"] & 0xF000 == 0x8000]
    ext = [i for i in regular_files(fs) if fs.inode(i)["flags"] & EXTENTS_FL and not fs.inode(i)["flags"] & INLINE_DATA_FL]
    if cands:
        for ino in r.sample(cands, len(cands)):
            a = fs.inode_loc(ino)
            slots = [struct.unpack_from("<I", d, a + 40 + 4 * k)[0] for k in range(12)]
            if slots[11] == 0 and slots[0] != 0:
                k = max(i for i in range(12) if slots[i]) + 1
                struct.pack_into("<I", d, a + 40 + 4 * k, v)
                struct.pack_into("<I", d, a + 28, struct.unpack_from("<I", d, a + 28)[0] + fs.bs // 512)
                struct.pack_into("<I", d, a + 4, (k + 1) * fs.bs)
                if keep_csum:
                    fix_inode_csum(fs, d, ino)
                return "inode %d: block %d appended in slot %d, i_blocks and i_size adjusted (blocks count %d)" % (ino, v, k, fs.blocks_count)
    for ino in r.sample(ext, len(ext)):
        a = fs.inode_loc(ino)
        magic, entries, mx, depth = struct.unpack_from("<HHHH", d, a + 40)
        if depth == 0 and 0 < entries < mx:
            last = a + 40 + 12 * entries
            lblk, ln = struct.unpack_from("<IH", d, last)
            nl = lblk + (ln & 0x7FFF)
            struct.pack_into("<IHHI", d, last + 12, nl, 1, 0, v & 0xFFFFFFFF)
            struct.pack_into("<H", d, a + 42, entries + 1)
            struct.pack_into("<I", d, a + 28, struct.unpack_from("<I", d, a + 28)[0] + fs.bs // 512)
            struct.pack_into("<I", d, a + 4, (nl + 1) * fs.bs)
            fix_inode_csum(fs, d, ino)
            return "inode %d: extent (lblk %d, start %d, len 1) appended, i_blocks and i_size adjusted (blocks count %d)" % (ino, nl, v, fs.blocks_count)
    return "not applicable"


SB_VARIANTS = ["bpg_big", "bpg_big_nobitmap", "ipg_big", "first_data_block", "blocks_count_hi", "inode_size_odd", "desc_size_small", "log_flex_big",
               "rsv_gdt_big", "first_ino_big", "log_cluster_big", "first_meta_bg_big", "free_inodes_beyond", "free_inodes_all"]


def op_superblock_geometry(fs, d, r, keep_csum, which=None):
    """superblock geometry fields at values that pass the open-time checks only just, or not at all (checksum valid)"""
    which = which or r.choice(SB_VARIANTS)
    sb = fs.off + 1024
    bs = fs.bs
    u32 = lambda o: struct.unpack_from("<I", d, sb + o)[0]
    if which in ("bpg_big", "bpg_big_nobitmap"):
        bpg = r.choice([8 * bs + 8, 8 * bs + 4096, 65528, 32768 + 8]) if bs < 8192 else 65528
        bpg = min(bpg, 65528)
        groups = (fs.blocks_count - fs.first_data_block + bpg - 1) // bpg
        struct.pack_into("<I", d, sb + 32, bpg)
        struct.pack_into("<I", d, sb + 36, bpg)
        struct.pack_into("<I", d, sb + 0, groups * u32(40))
        if which == "bpg_big_nobitmap":
            struct.pack_into("<I", d, gd_loc(fs, 0), 0)
            fix_gd_csum(fs, d, 0)
    elif which == "ipg_big":
        ipg = r.choice([8 * bs + 8, 65528, 8 * bs + 1024])
        struct.pack_into("<I", d, sb + 40, ipg)
        struct.pack_into("<I", d, sb + 0, fs.groups_count * ipg)
    elif which == "first_data_block":
        struct.pack_into("<I", d, sb + 20, r.choice([2, 7, fs.blocks_count - 1, fs.blocks_count, 0xFFFFFFFF]))
    elif which == "blocks_count_hi":
        struct.pack_into("<I", d, sb + 0x150, r.choice([1, 0xFFFF, 0xFFFFFFFF]))
    elif which == "inode_size_odd":
        struct.pack_into("<H", d, sb + 88, r.choice([0, 1, 127, 129, 192, bs * 2, 0xFFFF]))
    elif which == "desc_size_small":
        struct.pack_into("<H", d, sb + 0xFE, r.choice([0, 1, 16, 31, 33, 48, 96, 1023, 0xFFFF]))
    elif which == "log_flex_big":
        d[sb + 0x174] = r.choice([31, 32, 33, 63, 255])
    elif which == "rsv_gdt_big":
        struct.pack_into("<H", d, sb + 0xCE, r.choice([bs // 4, bs // 4 + 1, 0x7FFF, 0xFFFF]))
    elif which == "first_ino_big":
        struct.pack_into("<I", d, sb + 84, r.choice([0, 1, u32(0), u32(0) + 1, 0xFFFFFFFF]))
    elif which == "log_cluster_big":
        struct.pack_into("<I", d, sb + 28, r.choice([u32(24) + 1, 29, 30, 31, 0xFFFFFFFF]))
    elif which in ("free_inodes_beyond", "free_inodes_all"):
        # more free inodes than inodes / no inode in use at all: resize2fs's minimum-size estimate starts from the difference
        struct.pack_into("<I", d, sb + 16, u32(0) + (r.choice([1, 5, 0x7FFFFFFF]) if which == "free_inodes_beyond" else 0))
    elif which == "first_meta_bg_big":
        struct.pack_into("<I", d, sb + 0x104, r.choice([1, fs.desc_blocks, fs.desc_blocks + 1, 0xFFFFFFFF]))
    fix_sb_csum(fs, d)
    return "superblock: %s" % which


DX_VARIANTS = ["root_count_big", "root_count_max", "root_limit_big", "root_levels", "root_info_length", "entry_block_big", "root_count_zero", "levels_cycle"]


def op_dx_node(fs, d, r, keep_csum, which=None):
    """the count/limit header of an htree root, its level count, or an entry's block number"""
    which = which or r.choice(DX_VARIANTS)
    cands = [i for i in directories(fs) if fs.inode(i)["flags"] & 0x1000]
    if not cands:
        return "not applicable"
    ino = r.choice(cands)
    inode = fs.inode(ino)
    m, _ = fs.file_map(ino, inode)
    if 0 not in m:
        return "not applicable"
    a = fs.off + m[0][0] * fs.bs
    info_len = d[a + 0x18 + 5]
    cl = a + 0x18 + info_len
    limit, count = struct.unpack_from("<HH", d, cl)
    if which == "root_count_big":
        struct.pack_into("<H", d, cl + 2, limit + r.choice([1, 2, 50]))
    elif which == "root_count_max":
        struct.pack_into("<H", d, cl + 2, r.choice([0xFFFF, 0x8000, 4096]))
    elif which == "root_count_zero":
        struct.pack_into("<H", d, cl + 2, 0)
    elif which == "root_limit_big":
        struct.pack_into("<H", d, cl, r.choice([0xFFFF, limit + 1, limit * 2]))
        struct.pack_into("<H", d, cl + 2, r.choice([count, limit + 1, 0xFFF0]))
    elif which == "levels_cycle":
        # a claimed depth of 12 over an interior node whose every entry leads back to itself (all checksums valid):
        # a walk that branches at every level visits 60^12 nodes
        leaf = struct.unpack_from("<I", d, cl + 4)[0] & 0x0FFFFFFF
        if leaf in m:
            d[a + 0x18 + 6] = 12
            for k in range(count):
                struct.pack_into("<I", d, cl + 8 * k + 4, leaf)
            b = fs.off + m[leaf][0] * fs.bs
            nlim = (fs.bs - 8 - (8 if fs.has_csum else 0)) // 8
            node = bytearray(fs.bs)
            struct.pack_into("<IHBB", node, 0, 0, fs.bs & 0xFFFF, 0, 0)
            struct.pack_into("<HH", node, 8, nlim, 60)
            for k in range(1, 60):
                struct.pack_into("<II", node, 8 + 8 * k, k * 0x04000000, leaf)
            struct.pack_into("<I", node, 12, leaf)
            if fs.has_csum:
                toff = 8 + 8 * nlim
                c = crc32c(crc32c(crc32c(_seed(fs), struct.pack("<I", ino)), struct.pack("<I", inode["generation"])), bytes(node[:8 + 8 * 60]))
                c = crc32c(c, bytes(node[toff:toff + 4]) + b"\0\0\0\0")
                struct.pack_into("<I", node, toff + 4, c)
            d[b:b + fs.bs] = node
    elif which == "root_levels":
        d[a + 0x18 + 6] = r.choice([1, 2, 3, 4, 255])
    elif which == "root_info_length":
        d[a + 0x18 + 5] = r.choice([0, 4, 9, 16, 200, 255])
    elif which == "entry_block_big":
        struct.pack_into("<I", d, cl + 8 * r.randrange(max(1, count)) + 4, r.choice([0xFFFFFF, 0x00FFFFFE, len(m) + 3, 0xFFFFFFFF]))
    if keep_csum and fs.has_csum:
        # dx tail: after limit entries
        limit2 = struct.unpack_from("<H", d, cl)[0] if which != "root_limit_big" else limit
        toff = (0x18 + info_len) + 8 * limit
        if toff + 8 <= fs.bs:
            cnt = struct.unpack_from("<H", d, cl + 2)[0]
            gen = inode["generation"]
            c = crc32c(crc32c(crc32c(_seed(fs), struct.pack("<I", ino)), struct.pack("<I", gen)), bytes(d[a:a + 0x18 + info_len + 8 * min(cnt, limit)]))
            c = crc32c(c, bytes(d[a + toff:a + toff + 4]) + b"\0\0\0\0")
            struct.pack_into("<I", d, a + toff + 4, c)
    return "directory inode %d: htree root %s" % (ino, which)


XATTR_VARIANTS = ["size_wrap", "size_wrap_lo", "size_max", "size_block", "offs_end", "offs_header", "name_len", "inum", "refcount0", "refcount_hi", "no_terminator"]


def fix_xattr_block_csum(fs, d, blk):
    if not fs.has_csum:
        return
    a = blk * fs.bs
    raw = bytearray(d[a:a + fs.bs])
    raw[16:20] = b"\0\0\0\0"
    c = crc32c(crc32c(_seed(fs), struct.pack("<Q", blk)), bytes(raw))
    struct.pack_into("<I", d, a + 16, c)


def op_xattr_block(fs, d, r, keep_csum, which=None):
    """an entry of an external attribute block with a size/offset/name length at or beyond what 32-bit sums can take"""
    owners = [ino for ino in fs.in_use_inodes() if (ino == 2 or ino >= fs.first_ino) and fs.inode(ino)["file_acl"]]
    if not owners:
        return "not applicable"
    ino = r.choice(owners)
    blk = fs.inode(ino)["file_acl"]
    a = blk * fs.bs
    ents = []
    o = 32
    while o + 16 <= fs.bs and struct.unpack_from("<I", d, a + o)[0]:
        ents.append(o)
        o += (16 + d[a + o] + 3) & ~3
    if not ents:
        return "not applicable"
    e = a + r.choice(ents)
    which = which or r.choice(XATTR_VARIANTS)
    bs = fs.bs
    if which == "size_wrap":
        struct.pack_into("<H", d, e + 2, bs - 4)
        struct.pack_into("<I", d, e + 8, (1 << 32) - bs // 2)
    elif which == "size_wrap_lo":
        struct.pack_into("<I", d, e + 8, (1 << 32) - struct.unpack_from("<H", d, e + 2)[0] + r.choice([0, 1, 4, bs // 2]))
    elif which == "size_max":
        struct.pack_into("<I", d, e + 8, r.choice([0xFFFFFFFF, 0x80000000, 0x7FFFFFFF, 0xFFFFFFFC]))
    elif which == "size_block":
        struct.pack_into("<I", d, e + 8, r.choice([bs, bs + 1, bs - struct.unpack_from("<H", d, e + 2)[0] + 1, 65536]))
    elif which == "offs_end":
        struct.pack_into("<H", d, e + 2, r.choice([bs - 1, bs, bs + 4, 0xFFFF, 0xFFFC]))
    elif which == "offs_header":
        struct.pack_into("<H", d, e + 2, r.choice([0, 4, 16, 32, 36]))
    elif which == "name_len":
        d[e] = r.choice([0, 255, 254, d[e] + 4, d[e] + 64])
    elif which == "inum":
        struct.pack_into("<I", d, e + 4, r.choice([1, 2, 8, ino, fs.inodes_count, fs.inodes_count + 1, 0xFFFFFFFF]))
    elif which == "refcount0":
        struct.pack_into("<I", d, a + 4, 0)
    elif which == "refcount_hi":
        struct.pack_into("<I", d, a + 4, r.choice([2, 0xFFFFFFFF, 1025]))
    elif which == "no_terminator":
        # fill the rest of the entry table with non-zero words so that no terminator follows
        for x in range(o, bs - 3, 4):
            if struct.unpack_from("<I", d, a + x)[0] == 0:
                struct.pack_into("<I", d, a + x, 0x01010101)
    if keep_csum:
        fix_xattr_block_csum(fs, d, blk)
    return "inode %d: attribute block %d, entry at %d: %s" % (ino, blk, e - a, which)


# two-field corruptions: the repair of one must not hide or undo the other
PAIRS = [
    [(op_bitmap_csum, "ib"), (op_bitmap_block, None)],
    [(op_bitmap_csum, "bb"), (op_bitmap_inode, None)],
    [(op_bitmap_csum, "ib"), (op_gd_counts, None)],
    [(op_bitmap_csum, "ib"), (op_bitmap_block, "last")],
    [(op_gd_counts, "last")],
    [(op_bitmap_block, "last")],
    [(op_bitmap_inode, "last"), (op_gd_counts, "last")],
    [(op_bitmap_csum, "bb"), (op_bitmap_csum, "ib")],
    [(op_xattr_block, "refcount0")],
    [(op_xattr_block, "refcount_hi")],
    [(op_bitmap_csum, "bb_iuninit")],
    [(op_bitmap_csum, "ib_buninit")],
]

DIRECTED = [(op_append_block, "end"), (op_append_block, "end+1"), (op_block_pointer, "end"), (op_block_pointer, "end+1"), (op_extent_edge, "end"), (op_extent_edge, "end+1"),
            (op_extra_isize, "hi"), (op_block_pointer, "first-1"), (op_block_pointer, "itable"), (op_extra_isize, "ok")]

OPERATORS = [op_dx_node, op_xattr_block, op_xattr_block, op_append_block, op_block_pointer, op_extent_edge, op_extra_isize, op_bitmap_block, op_bitmap_inode, op_gd_counts, op_gd_location, op_inode_field, op_inode_field,
             op_extent, op_extent, op_dirent, op_dirent, op_csum_only, op_noise]


def corrupt(base_path, out_path, r, nops=None, operators=None, directed=None):
    """applies 1..3 operators; returns the list of their descriptions.  directed = k: the k-th boundary operator alone"""
    fs = Fs(base_path)
    d = bytearray(fs.d)
    desc = []
    if directed is not None:
        todo = directed if isinstance(directed, list) else [directed if isinstance(directed, tuple) else DIRECTED[directed % len(DIRECTED)]]
        for op, which in todo:
            try:
                desc.append(op(fs, d, r, True, which) + (" (checksums re-computed)" if fs.has_csum and op is not op_extra_isize else ""))
            except (FormatError, struct.error, IndexError, ValueError) as ex:
                desc.append("operator %s not applicable: %r" % (op.__name__, ex))
        with open(out_path, "wb") as f:
            f.write(d)
        return desc
    for _ in range(nops or r.choice([1, 1, 1, 2, 2, 3])):
        op = r.choice(operators or OPERATORS)
        keep = r.random() < 0.7
        try:
            desc.append(op(fs, d, r, keep) + (" (checksums re-computed)" if keep and fs.has_csum and op is not op_csum_only else ""))
        except (FormatError, struct.error, IndexError, ValueError) as ex:
            desc.append("operator %s not applicable: %r" % (op.__name__, ex))
    with open(out_path, "wb") as f:
        f.write(d)
    return desc

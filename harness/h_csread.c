/* C14 harness, reader side: a (possibly altered) image is read through the library's ordinary entry points -
 * the inode scan, ext2fs_read_inode, the extent walk in its compound moves, the directory iterator, the
 * attribute block reader, the bitmap loader, ext2fs_open - and the error each of them reports is printed.
 * usage: h_csread IMAGE KIND A [B]     one line "R <code> <code> ..." (0 = that path reported nothing) */
#include <stdio.h>
#include <stdlib.h>
#include <string.h>
#include "ext2fs/ext2_fs.h"
#include "ext2fs/ext2fs.h"

static int dir_cb(struct ext2_dir_entry *d, int off, int bs, char *buf, void *priv)
{
	(void) d; (void) off; (void) bs; (void) buf; (void) priv;
	return 0;
}

static long walk(ext2_filsys fs, ext2_ino_t ino, int first, int op)
{
	ext2_extent_handle_t h;
	struct ext2fs_extent e;
	errcode_t err;
	long steps = 0;

	err = ext2fs_extent_open(fs, ino, &h);
	if (err)
		return (long) err;
	err = ext2fs_extent_get(h, first, &e);
	while (!err && op && steps++ < 1000000)
		err = ext2fs_extent_get(h, op, &e);
	ext2fs_extent_free(h);
	if (err == EXT2_ET_EXTENT_NO_NEXT || err == EXT2_ET_EXTENT_NO_PREV)
		err = 0;
	return (long) err;
}

int main(int argc, char **argv)
{
	ext2_filsys fs = NULL;
	errcode_t e;
	unsigned long long a, b;
	const char *kind;

	if (argc < 4)
		return 2;
	kind = argv[2];
	a = strtoull(argv[3], NULL, 0);
	b = argc > 4 ? strtoull(argv[4], NULL, 0) : 0;
	e = ext2fs_open(argv[1], EXT2_FLAG_64BITS, 0, 0, unix_io_manager, &fs);
	if (!strcmp(kind, "superblock")) {
		printf("R %ld\n", (long) e);
		return 0;
	}
	if (e) {
		printf("R open %ld\n", (long) e);
		return 0;
	}
	if (!strcmp(kind, "inode")) {
		/* the scan (default buffer: 8 table blocks at a time) and the direct read */
		ext2_inode_scan scan;
		ext2_ino_t ino = 0;
		struct ext2_inode_large *buf = malloc(EXT2_INODE_SIZE(fs->super));
		long scan_err = -1, read_err;

		e = ext2fs_open_inode_scan(fs, (int) b, &scan);
		while (!e || e == EXT2_ET_INODE_CSUM_INVALID || e == EXT2_ET_INODE_IS_GARBAGE ||
		       e == EXT2_ET_BAD_BLOCK_IN_INODE_TABLE) {
			e = ext2fs_get_next_inode_full(scan, &ino, (struct ext2_inode *) buf, EXT2_INODE_SIZE(fs->super));
			if (ino == 0)
				break;
			if (ino == (ext2_ino_t) a) {
				scan_err = (long) e;
				break;
			}
		}
		ext2fs_close_inode_scan(scan);
		read_err = (long) ext2fs_read_inode_full(fs, (ext2_ino_t) a, (struct ext2_inode *) buf, EXT2_INODE_SIZE(fs->super));
		printf("R %ld %ld\n", scan_err, read_err);
	} else if (!strcmp(kind, "extent_block")) {
		printf("R %ld %ld %ld %ld\n", walk(fs, (ext2_ino_t) a, EXT2_EXTENT_ROOT, EXT2_EXTENT_NEXT_LEAF),
		       walk(fs, (ext2_ino_t) a, EXT2_EXTENT_ROOT, EXT2_EXTENT_NEXT),
		       walk(fs, (ext2_ino_t) a, EXT2_EXTENT_LAST_LEAF, EXT2_EXTENT_PREV_LEAF),
		       walk(fs, (ext2_ino_t) a, EXT2_EXTENT_LAST_LEAF, EXT2_EXTENT_PREV));
	} else if (!strcmp(kind, "dir_leaf") || !strcmp(kind, "htree_node")) {
		printf("R %ld\n", (long) ext2fs_dir_iterate(fs, (ext2_ino_t) a, 0, NULL, dir_cb, NULL));
	} else if (!strcmp(kind, "xattr_block")) {
		char *buf = malloc(fs->blocksize);
		printf("R %ld\n", (long) ext2fs_read_ext_attr3(fs, (blk64_t) b, buf, (ext2_ino_t) a));
	} else if (!strcmp(kind, "block_bitmap")) {
		printf("R %ld\n", (long) ext2fs_read_block_bitmap(fs));
	} else if (!strcmp(kind, "inode_bitmap")) {
		printf("R %ld\n", (long) ext2fs_read_inode_bitmap(fs));
	} else if (!strcmp(kind, "mmp")) {
		char *buf = malloc(fs->blocksize);
		printf("R %ld\n", (long) ext2fs_mmp_read(fs, fs->super->s_mmp_block, buf));
	} else
		printf("R ?\n");
	return 0;
}

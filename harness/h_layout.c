/* C20/C07 harness: backup-group arithmetic of the scratch libext2fs on a synthetic geometry.
 * stdin: S <sparse> <sparse2> <bg0> <bg1> <metabg> <first_meta_bg> <desc_per_block_log: desc size> <desc_blocks> <rsv_gdt> <first_data_block> <bpg> <blocksize> <ngroups> [<bigalloc 0|1>]
 *        prints for every group g < ngroups:  g has_super super_blk old_desc new_desc used
 *        then for every descriptor block i: D i <location with the primary superblock> <location with a backup superblock>
 *        L <n>   prints n results of ext2fs_list_backups(NULL, 1,5,7) */
#include <stdio.h>
#include <stdlib.h>
#include <string.h>
#include "ext2fs/ext2_fs.h"
#include "ext2fs/ext2fs.h"
#include "ext2fs/ext2fsP.h"

int main(void)
{
	char line[4096], cmd[8];
	while (fgets(line, sizeof line, stdin)) {
		if (sscanf(line, "%7s", cmd) != 1) continue;
		if (!strcmp(cmd, "S")) {
			struct struct_ext2_filsys fsb;
			struct ext2_super_block sb;
			unsigned long long sp, sp2, bg0, bg1, mb, fmb, dsize, dblocks, rsv, fdb, bpg, bs, ng, g, big = 0;
			sscanf(line, "%*s %llu %llu %llu %llu %llu %llu %llu %llu %llu %llu %llu %llu %llu %llu",
			       &sp, &sp2, &bg0, &bg1, &mb, &fmb, &dsize, &dblocks, &rsv, &fdb, &bpg, &bs, &ng, &big);
			memset(&fsb, 0, sizeof fsb); memset(&sb, 0, sizeof sb);
			fsb.magic = EXT2_ET_MAGIC_EXT2FS_FILSYS;
			fsb.super = &sb;
			fsb.blocksize = bs;
			fsb.desc_blocks = dblocks;
			fsb.group_desc_count = ng;
			sb.s_log_block_size = bs == 1024 ? 0 : bs == 2048 ? 1 : bs == 4096 ? 2 : bs == 8192 ? 3 : bs == 16384 ? 4 : bs == 32768 ? 5 : 6;
			if (big) {	/* bigalloc, 4 blocks per cluster */
				sb.s_feature_ro_compat |= EXT4_FEATURE_RO_COMPAT_BIGALLOC;
				sb.s_log_cluster_size = sb.s_log_block_size + 2;
				fsb.cluster_ratio_bits = 2;
			}
			sb.s_first_data_block = fdb;
			sb.s_blocks_per_group = bpg;
			sb.s_reserved_gdt_blocks = rsv;
			sb.s_first_meta_bg = fmb;
			sb.s_rev_level = 1;
			if (dsize == 64) { sb.s_feature_incompat |= EXT4_FEATURE_INCOMPAT_64BIT; sb.s_desc_size = 64; }
			if (sp) sb.s_feature_ro_compat |= EXT2_FEATURE_RO_COMPAT_SPARSE_SUPER;
			if (sp2) { sb.s_feature_compat |= EXT4_FEATURE_COMPAT_SPARSE_SUPER2; sb.s_backup_bgs[0] = bg0; sb.s_backup_bgs[1] = bg1; }
			if (mb) sb.s_feature_incompat |= EXT2_FEATURE_INCOMPAT_META_BG;
			for (g = 0; g < ng; g++) {
				blk64_t s = 0, o = 0, n = 0; blk_t u = 0;
				int hs = ext2fs_bg_has_super(&fsb, g);
				ext2fs_super_and_bgd_loc2(&fsb, g, &s, &o, &n, &u);
				printf("%llu %d %llu %llu %llu %u\n", g, !!hs, (unsigned long long) s, (unsigned long long) o, (unsigned long long) n, u);
			}
			ext2fs_blocks_count_set(&sb, fdb + ng * bpg);
			for (g = 0; g < dblocks; g++)
				printf("D %llu %llu %llu\n", g,
				       (unsigned long long) ext2fs_descriptor_block_loc2(&fsb, fdb, g),
				       (unsigned long long) ext2fs_descriptor_block_loc2(&fsb, fdb + bpg, g));
			printf("END\n");
		} else if (!strcmp(cmd, "L2")) {
			/* L2 <bg0> <bg1> <group count> <n>: ext2fs_list_backups on a sparse_super2 filesystem */
			struct struct_ext2_filsys fsb; struct ext2_super_block sb;
			unsigned long long b0, b1, gdc; int n, i; unsigned int three = 1, five = 5, seven = 7;
			sscanf(line, "%*s %llu %llu %llu %d", &b0, &b1, &gdc, &n);
			memset(&fsb, 0, sizeof fsb); memset(&sb, 0, sizeof sb);
			fsb.magic = EXT2_ET_MAGIC_EXT2FS_FILSYS; fsb.super = &sb; fsb.group_desc_count = gdc;
			sb.s_feature_compat |= EXT4_FEATURE_COMPAT_SPARSE_SUPER2; sb.s_backup_bgs[0] = b0; sb.s_backup_bgs[1] = b1;
			for (i = 0; i < n; i++) printf("%u\n", ext2fs_list_backups(&fsb, &three, &five, &seven));
			printf("END\n");
		} else if (!strcmp(cmd, "L")) {
			int n, i; dgrp_t three = 1, five = 5, seven = 7;
			sscanf(line, "%*s %d", &n);
			for (i = 0; i < n; i++) printf("%u\n", ext2fs_list_backups(NULL, &three, &five, &seven));
			printf("END\n");
		}
		fflush(stdout);
	}
	return 0;
}

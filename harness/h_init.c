/* C07 harness: ext2fs_initialize of the scratch libext2fs on a parameter line.
 * stdin:  I <file> <blocks> <log_bs> <isz> <inodes> <bpg> <sparse> <sparse2> <bb0> <bb1> <resize_inode> <meta_bg> <64bit> <rsv>
 * stdout: OK blocks bpg groups desc_blocks ipg itb inodes rsv meta_bg resize_inode | TOOSMALL | TOOMANY | RESGDT | ERR n */
#include <stdio.h>
#include <stdlib.h>
#include <string.h>
#include "ext2fs/ext2_fs.h"
#include "ext2fs/ext2fs.h"

int main(void)
{
	char line[4096], file[1024];
	while (fgets(line, sizeof line, stdin)) {
		unsigned long long blocks, lbs, isz, inodes, bpg, sp, sp2, bb0, bb1, rsz, mb, b64, rsv;
		struct ext2_super_block param;
		ext2_filsys fs = NULL;
		errcode_t err;
		if (sscanf(line, "I %1000s %llu %llu %llu %llu %llu %llu %llu %llu %llu %llu %llu %llu %llu", file,
			   &blocks, &lbs, &isz, &inodes, &bpg, &sp, &sp2, &bb0, &bb1, &rsz, &mb, &b64, &rsv) != 14) {
			printf("?\n"); fflush(stdout); continue;
		}
		memset(&param, 0, sizeof param);
		ext2fs_blocks_count_set(&param, blocks);
		param.s_log_block_size = lbs;
		param.s_rev_level = 1;
		param.s_inode_size = isz;
		param.s_inodes_count = inodes;
		param.s_blocks_per_group = bpg;
		param.s_reserved_gdt_blocks = rsv;
		if (sp) param.s_feature_ro_compat |= EXT2_FEATURE_RO_COMPAT_SPARSE_SUPER;
		if (sp2) { param.s_feature_compat |= EXT4_FEATURE_COMPAT_SPARSE_SUPER2; param.s_backup_bgs[0] = bb0; param.s_backup_bgs[1] = bb1; }
		if (rsz) param.s_feature_compat |= EXT2_FEATURE_COMPAT_RESIZE_INODE;
		if (mb) param.s_feature_incompat |= EXT2_FEATURE_INCOMPAT_META_BG;
		if (b64) param.s_feature_incompat |= EXT4_FEATURE_INCOMPAT_64BIT;
		if (b64 && blocks >= (1ULL << 32)) param.s_blocks_count_hi = blocks >> 32;
		err = ext2fs_initialize(file, EXT2_FLAG_64BITS, &param, unix_io_manager, &fs);
		if (err == EXT2_ET_TOOSMALL) printf("TOOSMALL\n");
		else if (err == EXT2_ET_TOO_MANY_INODES) printf("TOOMANY\n");
		else if (err == EXT2_ET_RES_GDT_BLOCKS) printf("RESGDT\n");
		else if (err) printf("ERR %ld\n", (long) err);
		else {
			printf("OK %llu %u %u %lu %u %u %u %u %d %d\n",
			       (unsigned long long) ext2fs_blocks_count(fs->super), fs->super->s_blocks_per_group,
			       fs->group_desc_count, (unsigned long) fs->desc_blocks, fs->super->s_inodes_per_group,
			       fs->inode_blocks_per_group, fs->super->s_inodes_count, fs->super->s_reserved_gdt_blocks,
			       !!ext2fs_has_feature_meta_bg(fs->super), !!ext2fs_has_feature_resize_inode(fs->super));
			ext2fs_free(fs);
		}
		fflush(stdout);
	}
	return 0;
}

/* C09 harness: drives the ext2_file_t API of the scratch libext2fs.
 * stdin commands (one result line each):
 *   OPEN <image>            open read-write, load bitmaps
 *   NEW <name>              create an empty regular file in the root directory -> "INO n"
 *   FO <slot> <ino>         ext2fs_file_open(EXT2_FILE_WRITE) into slot 0..7
 *   W <slot> <hex>          ext2fs_file_write until everything is written -> "W <bytes> <err>"
 *   R <slot> <n>            ext2fs_file_read until n bytes or EOF       -> "R <hex>"
 *   S <slot> <pos>          ext2fs_file_llseek(SET)
 *   SZ <slot> <size>        ext2fs_file_set_size2
 *   GS <slot>               ext2fs_file_get_lsize -> "SIZE n"
 *   FL <slot> / FC <slot>   flush / close
 *   P <ino> <start> <end>   ext2fs_punch (block numbers, end inclusive; end = -1: to the end)
 *   CLOSE                   ext2fs_close */
#include <stdio.h>
#include <stdlib.h>
#include <string.h>
#include "ext2fs/ext2_fs.h"
#include "ext2fs/ext2fs.h"

static ext2_filsys fs;
static ext2_file_t slot[8];

static int hexval(int c) { return c <= '9' ? c - '0' : (c | 32) - 'a' + 10; }

int main(void)
{
	static char line[1 << 22], arg[1 << 22];
	char cmd[16];
	long long a, b, c;
	errcode_t err;

	while (fgets(line, sizeof line, stdin)) {
		if (sscanf(line, "%15s", cmd) != 1) continue;
		if (!strcmp(cmd, "OPEN")) {
			sscanf(line, "%*s %4000s", arg);
			err = ext2fs_open(arg, EXT2_FLAG_RW | EXT2_FLAG_64BITS, 0, 0, unix_io_manager, &fs);
			if (!err) err = ext2fs_read_bitmaps(fs);
			printf("OPEN %ld\n", (long) err);
		} else if (!strcmp(cmd, "NEW")) {
			ext2_ino_t ino; struct ext2_inode inode;
			sscanf(line, "%*s %4000s", arg);
			err = ext2fs_new_inode(fs, EXT2_ROOT_INO, 0100644, 0, &ino);
			if (!err) {
				err = ext2fs_link(fs, EXT2_ROOT_INO, arg, ino, EXT2_FT_REG_FILE);
				if (err == EXT2_ET_DIR_NO_SPACE) {
					err = ext2fs_expand_dir(fs, EXT2_ROOT_INO);
					if (!err) err = ext2fs_link(fs, EXT2_ROOT_INO, arg, ino, EXT2_FT_REG_FILE);
				}
			}
			if (!err) {
				ext2fs_inode_alloc_stats2(fs, ino, +1, 0);
				memset(&inode, 0, sizeof inode);
				inode.i_mode = 0100644; inode.i_links_count = 1;
				if (ext2fs_has_feature_inline_data(fs->super))
					inode.i_flags |= EXT4_INLINE_DATA_FL;
				else if (ext2fs_has_feature_extents(fs->super)) {
					ext2_extent_handle_t h;
					err = ext2fs_extent_open2(fs, ino, &inode, &h);
					if (!err) ext2fs_extent_free(h);
				}
				if (!err) err = ext2fs_write_new_inode(fs, ino, &inode);
				if (!err && (inode.i_flags & EXT4_INLINE_DATA_FL)) err = ext2fs_inline_data_init(fs, ino);
			}
			if (err) printf("ERR %ld\n", (long) err); else printf("INO %u\n", ino);
		} else if (!strcmp(cmd, "FO")) {
			sscanf(line, "%*s %lld %lld", &a, &b);
			err = ext2fs_file_open(fs, (ext2_ino_t) b, EXT2_FILE_WRITE, &slot[a]);
			printf("FO %ld\n", (long) err);
		} else if (!strcmp(cmd, "W")) {
			size_t n, i, done = 0; unsigned int w;
			arg[0] = 0;
			sscanf(line, "%*s %lld %4190000s", &a, arg);
			n = strlen(arg) / 2;
			for (i = 0; i < n; i++) arg[i] = (char) (hexval(arg[2 * i]) * 16 + hexval(arg[2 * i + 1]));
			err = 0;
			while (done < n) {
				w = 0;
				err = ext2fs_file_write(slot[a], arg + done, n - done, &w);
				if (err || w == 0) break;
				done += w;
			}
			printf("W %zu %ld\n", done, (long) err);
		} else if (!strcmp(cmd, "R")) {
			size_t done = 0, i; unsigned int g;
			sscanf(line, "%*s %lld %lld", &a, &b);
			err = 0;
			while ((long long) done < b) {
				g = 0;
				err = ext2fs_file_read(slot[a], arg + done, b - done, &g);
				if (err || g == 0) break;
				done += g;
			}
			printf("R ");
			for (i = 0; i < done; i++) printf("%02x", (unsigned char) arg[i]);
			if (err) printf(" ERR%ld", (long) err);
			printf("\n");
		} else if (!strcmp(cmd, "S")) {
			__u64 r = 0;
			sscanf(line, "%*s %lld %lld", &a, &b);
			err = ext2fs_file_llseek(slot[a], b, EXT2_SEEK_SET, &r);
			printf("S %ld\n", (long) err);
		} else if (!strcmp(cmd, "SZ")) {
			sscanf(line, "%*s %lld %lld", &a, &b);
			err = ext2fs_file_set_size2(slot[a], b);
			printf("SZ %ld\n", (long) err);
		} else if (!strcmp(cmd, "GS")) {
			__u64 sz = 0;
			sscanf(line, "%*s %lld", &a);
			err = ext2fs_file_get_lsize(slot[a], &sz);
			printf("SIZE %llu\n", (unsigned long long) sz);
		} else if (!strcmp(cmd, "FL")) {
			sscanf(line, "%*s %lld", &a);
			printf("FL %ld\n", (long) ext2fs_file_flush(slot[a]));
		} else if (!strcmp(cmd, "FC")) {
			sscanf(line, "%*s %lld", &a);
			err = ext2fs_file_close(slot[a]); slot[a] = 0;
			printf("FC %ld\n", (long) err);
		} else if (!strcmp(cmd, "P")) {
			sscanf(line, "%*s %lld %lld %lld", &a, &b, &c);
			err = ext2fs_punch(fs, (ext2_ino_t) a, NULL, NULL, b, c < 0 ? ~0ULL : (blk64_t) c);
			printf("P %ld\n", (long) err);
		} else if (!strcmp(cmd, "FA")) {
			/* preallocation as debugfs "fallocate" does it: logical blocks b..c of inode a */
			sscanf(line, "%*s %lld %lld %lld", &a, &b, &c);
			err = ext2fs_fallocate(fs, EXT2_FALLOCATE_INIT_BEYOND_EOF, (ext2_ino_t) a, NULL, ~0ULL, (blk64_t) b, (blk64_t) (c - b + 1));
			printf("FA %ld\n", (long) err);
		} else if (!strcmp(cmd, "CLOSE")) {
			err = ext2fs_close(fs); fs = 0;
			printf("CLOSE %ld\n", (long) err);
		} else printf("?\n");
		fflush(stdout);
	}
	return 0;
}

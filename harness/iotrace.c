/* LD_PRELOAD shim: records every write-class system call on one watched file (and optionally a second one,
 * IOTRACE_PATH2, whose records carry the lower-case operation letters).
 * IOTRACE_PATH = file to watch, IOTRACE_LOG = log file (binary records).
 * record: 1 byte op ('W' write, 'F' fsync, 'T' ftruncate, 'O' open, 'C' close),
 *         8 bytes offset (LE), 8 bytes length (LE), then <length> data bytes for 'W';
 *         for 'O' the offset field holds the open flags.
 * IOTRACE_FAIL_AT = k: the k-th write (1-based) fails with EIO (0/unset = never).
 * IOTRACE_KILL_AT = k: the process is killed (SIGKILL, no exit handlers) instead of performing the k-th write. */
#define _GNU_SOURCE
#include <dlfcn.h>
#include <stdio.h>
#include <stdlib.h>
#include <string.h>
#include <stdarg.h>
#include <fcntl.h>
#include <errno.h>
#include <signal.h>
#include <unistd.h>
#include <sys/types.h>
#include <sys/stat.h>

static int watched[1024];
static int logfd = -1;
static int cur = 1;      /* which watched file the record being written belongs to */
static long nwrites, fail_at = -1, kill_at = -1;

static void init(void)
{
	const char *l;
	if (logfd >= 0 || logfd == -2) return;
	l = getenv("IOTRACE_LOG");
	if (!l) { logfd = -2; return; }
	logfd = ((int (*)(const char *, int, ...)) dlsym(RTLD_NEXT, "open"))(l, O_WRONLY | O_CREAT | O_APPEND, 0600);
	if (logfd < 0) logfd = -2;
	if (getenv("IOTRACE_FAIL_AT")) fail_at = atol(getenv("IOTRACE_FAIL_AT"));
	if (getenv("IOTRACE_KILL_AT")) kill_at = atol(getenv("IOTRACE_KILL_AT"));
}

static void rec(char op, unsigned long long off, unsigned long long len, const void *data)
{
	unsigned char h[17];
	int i;
	ssize_t (*rw)(int, const void *, size_t) = dlsym(RTLD_NEXT, "write");
	if (logfd < 0) return;
	h[0] = cur == 2 ? op + 32 : op;
	for (i = 0; i < 8; i++) { h[1 + i] = off >> (8 * i); h[9 + i] = len >> (8 * i); }
	rw(logfd, h, 17);
	if ((op == 'W') && data) rw(logfd, data, len);
}

static int same_path(const char *p, const char *w)
{
	char a[4096], b[4096];
	if (!w || !p) return 0;
	if (!realpath(p, a) || !realpath(w, b)) return !strcmp(p, w);
	return !strcmp(a, b);
}
static int is_watched_path(const char *p)
{
	if (same_path(p, getenv("IOTRACE_PATH"))) return 1;
	if (same_path(p, getenv("IOTRACE_PATH2"))) return 2;
	return 0;
}
#define REC(fd, op, a, b, c) do { cur = watched[fd]; rec(op, a, b, c); } while (0)

static void note_open(int fd, const char *path, int flags)
{
	init();
	int w;
	if (fd >= 0 && fd < 1024 && (w = is_watched_path(path))) { watched[fd] = w; REC(fd, 'O', flags, 0, 0); }
}

int open(const char *path, int flags, ...)
{
	mode_t m = 0; int fd;
	if (flags & (O_CREAT | O_TMPFILE)) { va_list ap; va_start(ap, flags); m = va_arg(ap, int); va_end(ap); }
	fd = ((int (*)(const char *, int, ...)) dlsym(RTLD_NEXT, "open"))(path, flags, m);
	note_open(fd, path, flags);
	return fd;
}
int open64(const char *path, int flags, ...)
{
	mode_t m = 0; int fd;
	if (flags & (O_CREAT | O_TMPFILE)) { va_list ap; va_start(ap, flags); m = va_arg(ap, int); va_end(ap); }
	fd = ((int (*)(const char *, int, ...)) dlsym(RTLD_NEXT, "open64"))(path, flags, m);
	note_open(fd, path, flags);
	return fd;
}
int openat(int dfd, const char *path, int flags, ...)
{
	mode_t m = 0; int fd;
	if (flags & (O_CREAT | O_TMPFILE)) { va_list ap; va_start(ap, flags); m = va_arg(ap, int); va_end(ap); }
	fd = ((int (*)(int, const char *, int, ...)) dlsym(RTLD_NEXT, "openat"))(dfd, path, flags, m);
	if (dfd == AT_FDCWD || (path && path[0] == '/')) note_open(fd, path, flags);
	return fd;
}
int close(int fd)
{
	if (fd >= 0 && fd < 1024 && watched[fd]) { REC(fd, 'C', 0, 0, 0); watched[fd] = 0; }
	return ((int (*)(int)) dlsym(RTLD_NEXT, "close"))(fd);
}
static int should_fail(void)
{
	nwrites++;
	if (kill_at > 0 && nwrites == kill_at) kill(getpid(), SIGKILL);
	return fail_at > 0 && nwrites == fail_at;
}
ssize_t pwrite64(int fd, const void *buf, size_t n, off64_t off)
{
	ssize_t r;
	if (fd >= 0 && fd < 1024 && watched[fd] && should_fail()) { errno = EIO; return -1; }
	r = ((ssize_t (*)(int, const void *, size_t, off64_t)) dlsym(RTLD_NEXT, "pwrite64"))(fd, buf, n, off);
	/* only calls that took effect are part of the history (a write on a read-only descriptor fails with EBADF) */
	if (r > 0 && fd >= 0 && fd < 1024 && watched[fd]) REC(fd, 'W', off, r, buf);
	return r;
}
ssize_t pwrite(int fd, const void *buf, size_t n, off_t off)
{
	return pwrite64(fd, buf, n, off);
}
ssize_t write(int fd, const void *buf, size_t n)
{
	ssize_t (*rw)(int, const void *, size_t) = dlsym(RTLD_NEXT, "write");
	if (fd >= 0 && fd < 1024 && watched[fd]) {
		off_t pos = lseek(fd, 0, SEEK_CUR);
		ssize_t r;
		if (should_fail()) { errno = EIO; return -1; }
		r = rw(fd, buf, n);
		if (r > 0) REC(fd, 'W', pos, r, buf);
		return r;
	}
	return rw(fd, buf, n);
}
int fsync(int fd)
{
	if (fd >= 0 && fd < 1024 && watched[fd]) REC(fd, 'F', 0, 0, 0);
	return ((int (*)(int)) dlsym(RTLD_NEXT, "fsync"))(fd);
}
int fdatasync(int fd)
{
	if (fd >= 0 && fd < 1024 && watched[fd]) REC(fd, 'F', 1, 0, 0);
	return ((int (*)(int)) dlsym(RTLD_NEXT, "fdatasync"))(fd);
}
int ftruncate(int fd, off_t len)
{
	int r = ((int (*)(int, off_t)) dlsym(RTLD_NEXT, "ftruncate"))(fd, len);
	if (r == 0 && fd >= 0 && fd < 1024 && watched[fd]) REC(fd, 'T', len, 0, 0);
	return r;
}
int ftruncate64(int fd, off64_t len)
{
	int r = ((int (*)(int, off64_t)) dlsym(RTLD_NEXT, "ftruncate64"))(fd, len);
	if (r == 0 && fd >= 0 && fd < 1024 && watched[fd]) REC(fd, 'T', len, 0, 0);
	return r;
}
int fallocate(int fd, int mode, off_t off, off_t len)
{
	int r = ((int (*)(int, int, off_t, off_t)) dlsym(RTLD_NEXT, "fallocate"))(fd, mode, off, len);
	if (r == 0 && fd >= 0 && fd < 1024 && watched[fd]) REC(fd, 'A', off, len, 0);
	return r;
}

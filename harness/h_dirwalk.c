/* C06 harness: ext2fs_dir_iterate2 over one directory of an image, checksum errors ignored.
 * usage: h_dirwalk <image> <ino>...   prints per inode: "<ino> OK <records>" or "<ino> ERR <code>" */
#include <stdio.h>
#include <stdlib.h>
#include "ext2fs/ext2_fs.h"
#include "ext2fs/ext2fs.h"

static int cb(ext2_ino_t dir, int entry, struct ext2_dir_entry *d, int off, int bs, char *buf, void *priv)
{
	(*(long *) priv)++;
	return 0;
}

int main(int argc, char **argv)
{
	ext2_filsys fs;
	int i;
	errcode_t err = ext2fs_open(argv[1], EXT2_FLAG_64BITS | EXT2_FLAG_IGNORE_CSUM_ERRORS, 0, 0, unix_io_manager, &fs);
	if (err) { printf("OPEN %ld\n", (long) err); return 1; }
	for (i = 2; i < argc; i++) {
		long n = 0;
		err = ext2fs_dir_iterate2(fs, atoi(argv[i]), DIRENT_FLAG_INCLUDE_EMPTY | DIRENT_FLAG_INCLUDE_CSUM, 0, cb, &n);
		if (err == EXT2_ET_DIR_CORRUPTED) printf("%s CORRUPT\n", argv[i]);
		else if (err) printf("%s ERR %ld\n", argv[i], (long) err);
		else printf("%s OK %ld\n", argv[i], n);
	}
	ext2fs_close(fs);
	return 0;
}

/* C16 harness: drives the generic bitmap API of the scratch libext2fs.
 * stdin:  G <type> <start> <end> <real_end> <cbits>   starts a fresh bitmap
 *         op lines (see props/c16.py)
 * stdout: one result line per op line. */
#include <stdio.h>
#include <stdlib.h>
#include <string.h>
#include <errno.h>
#include "ext2fs/ext2_fs.h"
#include "ext2fs/ext2fs.h"
#include "ext2fs/ext2fsP.h"
#include "ext2fs/bmap64.h"

static struct struct_ext2_filsys fake_fs;
static ext2fs_generic_bitmap bm, snap;
static unsigned long long nbits_max = 1 << 20;

static int norm_err(errcode_t e)
{
	if (e == 0) return 0;
	if (e == EINVAL) return 22;
	if (e == ENOENT) return 2;
	return 1;
}

int main(void)
{
	char line[1 << 16], cmd[16];
	unsigned long long a, b, c, d, e;
	errcode_t err;

	while (fgets(line, sizeof(line), stdin)) {
		if (sscanf(line, "%15s", cmd) != 1)
			continue;
		if (!strcmp(cmd, "G")) {
			sscanf(line, "%*s %llu %llu %llu %llu %llu", &a, &b, &c, &d, &e);
			if (bm) ext2fs_free_generic_bmap(bm);
			if (snap) ext2fs_free_generic_bmap(snap);
			bm = snap = 0;
			memset(&fake_fs, 0, sizeof(fake_fs));
			fake_fs.magic = EXT2_ET_MAGIC_EXT2FS_FILSYS;
			fake_fs.flags = EXT2_FLAG_64BITS;
			fake_fs.cluster_ratio_bits = e;
			if (a == 0) {
				/* the legacy 32-bit bitmap (gen_bitmap.c), reached through the same generic calls */
				fake_fs.flags = 0;
				err = ext2fs_make_generic_bitmap(EXT2_ET_MAGIC_BLOCK_BITMAP, &fake_fs, (__u32) b, (__u32) c, (__u32) d,
								 "h_bitmap", 0, &bm);
			} else
			err = ext2fs_alloc_generic_bmap(&fake_fs, EXT2_ET_MAGIC_BLOCK_BITMAP64,
							(int) a, b, c, d, "h_bitmap", &bm);
			if (err) { printf("ALLOCFAIL %ld\n", (long) err); return 2; }
			printf("G\n");
		} else if (!strcmp(cmd, "M")) {
			sscanf(line, "%*s %llu", &a);
			printf("I %d\n", !!ext2fs_mark_generic_bmap(bm, a));
		} else if (!strcmp(cmd, "U")) {
			sscanf(line, "%*s %llu", &a);
			printf("I %d\n", !!ext2fs_unmark_generic_bmap(bm, a));
		} else if (!strcmp(cmd, "T")) {
			sscanf(line, "%*s %llu", &a);
			printf("I %d\n", !!ext2fs_test_generic_bmap(bm, a));
		} else if (!strcmp(cmd, "MR")) {
			sscanf(line, "%*s %llu %llu", &a, &b);
			ext2fs_mark_block_bitmap_range2(bm, a, (unsigned int) b);
			printf("V\n");
		} else if (!strcmp(cmd, "UR")) {
			sscanf(line, "%*s %llu %llu", &a, &b);
			ext2fs_unmark_block_bitmap_range2(bm, a, (unsigned int) b);
			printf("V\n");
		} else if (!strcmp(cmd, "TR")) {
			int r;
			sscanf(line, "%*s %llu %llu", &a, &b);
			r = ext2fs_test_block_bitmap_range2(bm, a, (unsigned int) b);
			if (r == EINVAL) printf("E 22\n"); else printf("I %d\n", !!r);
		} else if (!strcmp(cmd, "FZ") || !strcmp(cmd, "FS")) {
			__u64 out = 0;
			sscanf(line, "%*s %llu %llu", &a, &b);
			if (cmd[1] == 'Z')
				err = ext2fs_find_first_zero_generic_bmap(bm, a, b, &out);
			else
				err = ext2fs_find_first_set_generic_bmap(bm, a, b, &out);
			if (err) printf("E %d\n", norm_err(err));
			else printf("P %llu\n", (unsigned long long) out);
		} else if (!strcmp(cmd, "GR")) {
			unsigned char *buf;
			unsigned long long i;
			sscanf(line, "%*s %llu %llu", &a, &b);
			buf = malloc((b + 7) / 8 + 8);
			memset(buf, 0xA5, (b + 7) / 8 + 8);   /* poison: detects an untouched buffer */
			err = ext2fs_get_generic_bmap_range(bm, a, (unsigned int) b, buf);
			if (err) printf("E %d\n", norm_err(err));
			else {
				printf("B ");
				for (i = 0; i < b; i++)
					putchar((buf[i >> 3] >> (i & 7)) & 1 ? '1' : '0');
				printf("\n");
			}
			free(buf);
		} else if (!strcmp(cmd, "SR")) {
			char *bits = malloc(1 << 16);
			unsigned char *buf;
			unsigned long long i;
			bits[0] = 0;
			sscanf(line, "%*s %llu %llu %65000s", &a, &b, bits);
			buf = calloc((b + 7) / 8 + 8, 1);
			for (i = 0; i < b && bits[i]; i++)
				if (bits[i] == '1') buf[i >> 3] |= 1 << (i & 7);
			err = ext2fs_set_generic_bmap_range(bm, a, (unsigned int) b, buf);
			if (err) printf("E %d\n", norm_err(err)); else printf("V\n");
			free(buf); free(bits);
		} else if (!strcmp(cmd, "CL")) {
			ext2fs_clear_generic_bmap(bm);
			printf("V\n");
		} else if (!strcmp(cmd, "PAD")) {
			ext2fs_set_generic_bmap_padding(bm);
			printf("V\n");
		} else if (!strcmp(cmd, "RS")) {
			sscanf(line, "%*s %llu %llu", &a, &b);
			if (snap) ext2fs_free_generic_bmap(snap);
			snap = 0;
			err = ext2fs_resize_generic_bmap(bm, a, b);
			if (err) printf("E %d\n", norm_err(err)); else printf("V\n");
		} else if (!strcmp(cmd, "SNAP")) {
			if (snap) ext2fs_free_generic_bmap(snap);
			snap = 0;
			err = ext2fs_copy_generic_bmap(bm, &snap);
			if (err) printf("E %d\n", norm_err(err)); else printf("V\n");
		} else if (!strcmp(cmd, "CMP")) {
			if (!snap) printf("E 22\n");
			else {
				err = ext2fs_compare_generic_bmap(1, bm, snap);
				if (err == 0) printf("I 0\n"); else printf("E %d\n", norm_err(err));
			}
		} else {
			printf("?\n");
		}
		fflush(stdout);
	}
	return 0;
}

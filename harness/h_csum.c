/* C14 harness: CRC primitives at chosen alignments, and the library's checksum
 * verification on caller-supplied (possibly altered) object bytes. */
#include <stdio.h>
#include <stdlib.h>
#include <string.h>
#include "ext2fs/ext2_fs.h"
#include "ext2fs/ext2fs.h"
#include "ext2fs/ext2fsP.h"
#include "ext2fs/crc16.h"

static ext2_filsys fs;

static int unhex(const char *h, unsigned char *out)
{
	int n = 0;
	while (h[0] && h[1] && h[0] != '\n') {
		unsigned v;
		sscanf(h, "%2x", &v);
		out[n++] = v;
		h += 2;
	}
	return n;
}

int main(void)
{
	static char line[1 << 20], arg[1 << 20];
	static unsigned char raw[(1 << 19) + 64];
	char cmd[16];
	unsigned long long a, b, c;
	int n;

	while (fgets(line, sizeof(line), stdin)) {
		if (sscanf(line, "%15s", cmd) != 1) continue;
		arg[0] = 0;
		if (!strcmp(cmd, "CRC32C") || !strcmp(cmd, "CRC32BE") || !strcmp(cmd, "CRC16")) {
			unsigned char *p;
			sscanf(line, "%*s %llu %llu %1000000s", &a, &b, arg);
			/* place the buffer at address = 16k + align (raw is at least 16-aligned after rounding) */
			p = (unsigned char *) ((((unsigned long) raw + 15) & ~15UL) + b);
			n = unhex(arg, p);
			if (!strcmp(cmd, "CRC32C")) printf("%u\n", ext2fs_crc32c_le((__u32) a, p, n));
			else if (!strcmp(cmd, "CRC32BE")) printf("%u\n", ext2fs_crc32_be((__u32) a, p, n));
			else printf("%u\n", (unsigned) ext2fs_crc16((crc16_t) a, p, n));
		} else if (!strcmp(cmd, "OPEN")) {
			errcode_t e;
			sscanf(line, "%*s %1000000s", arg);
			if (fs) ext2fs_close_free(&fs);
			e = ext2fs_open(arg, EXT2_FLAG_64BITS | EXT2_FLAG_IGNORE_CSUM_ERRORS, 0, 0, unix_io_manager, &fs);
			printf("%s\n", e ? "ERR" : "OK");
			if (!e) fs->flags &= ~EXT2_FLAG_IGNORE_CSUM_ERRORS;
		} else if (!fs) {
			printf("NOFS\n");
		} else if (!strcmp(cmd, "VSB")) {
			sscanf(line, "%*s %1000000s", arg);
			unhex(arg, raw);
			printf("%d\n", !!ext2fs_superblock_csum_verify(fs, (struct ext2_super_block *) raw));
		} else if (!strcmp(cmd, "VGD")) {
			struct ext2_group_desc *gd;
			unsigned char save[128];
			sscanf(line, "%*s %llu %1000000s", &a, arg);
			gd = ext2fs_group_desc(fs, fs->group_desc, (dgrp_t) a);
			memcpy(save, gd, EXT2_DESC_SIZE(fs->super));
			unhex(arg, (unsigned char *) gd);
			printf("%d\n", !!ext2fs_group_desc_csum_verify(fs, (dgrp_t) a));
			memcpy(gd, save, EXT2_DESC_SIZE(fs->super));
		} else if (!strcmp(cmd, "VBB") || !strcmp(cmd, "VIB")) {
			sscanf(line, "%*s %llu %1000000s", &a, arg);
			n = unhex(arg, raw);
			if (cmd[1] == 'B') printf("%d\n", !!ext2fs_block_bitmap_csum_verify(fs, (dgrp_t) a, (char *) raw, n));
			else printf("%d\n", !!ext2fs_inode_bitmap_csum_verify(fs, (dgrp_t) a, (char *) raw, n));
		} else if (!strcmp(cmd, "VINODE")) {
			sscanf(line, "%*s %llu %1000000s", &a, arg);
			unhex(arg, raw);
			printf("%d\n", !!ext2fs_inode_csum_verify(fs, (ext2_ino_t) a, (struct ext2_inode_large *) raw));
		} else if (!strcmp(cmd, "VDIR")) {
			sscanf(line, "%*s %llu %1000000s", &a, arg);
			unhex(arg, raw);
			printf("%d\n", !!ext2fs_dir_block_csum_verify(fs, (ext2_ino_t) a, (struct ext2_dir_entry *) raw));
		} else if (!strcmp(cmd, "VEXT")) {
			sscanf(line, "%*s %llu %1000000s", &a, arg);
			unhex(arg, raw);
			printf("%d\n", !!ext2fs_extent_block_csum_verify(fs, (ext2_ino_t) a, (struct ext3_extent_header *) raw));
		} else if (!strcmp(cmd, "VXA")) {
			sscanf(line, "%*s %llu %llu %1000000s", &a, &b, arg);
			unhex(arg, raw);
			printf("%d\n", !!ext2fs_ext_attr_block_csum_verify(fs, (ext2_ino_t) a, (blk64_t) b, (struct ext2_ext_attr_header *) raw));
		} else if (!strcmp(cmd, "VMMP")) {
			sscanf(line, "%*s %1000000s", arg);
			unhex(arg, raw);
			printf("%d\n", !!ext2fs_mmp_csum_verify(fs, (struct mmp_struct *) raw));
		} else printf("?\n");
		fflush(stdout);
		(void) c;
	}
	return 0;
}

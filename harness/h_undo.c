/* C12 harness: records writes through undo_io_manager over unix_io.
 * stdin:  N <img> <undofile> <B> <T> <off>   open (image file exists already)
 *         W blk cnt hex | WB blk hex | WY off hex | Z blk cnt | SB n | REOPEN | C
 * stdout: one line per op. */
#include <stdio.h>
#include <stdlib.h>
#include <string.h>
#include <unistd.h>
#include "ext2fs/ext2_fs.h"
#include "ext2fs/ext2fs.h"

static io_channel ch;
static char img[4096], undo[4096];
static long B, T, off;

static int unhex(const char *h, unsigned char *out)
{
	int n = 0;
	while (h[0] && h[1] && h[0] != '\n') {
		unsigned v;
		sscanf(h, "%2x", &v);
		out[n++] = v;
		h += 2;
	}
	return n;
}

static void rc(errcode_t e)
{
	if (e == 0) printf("OK\n"); else printf("ERR %ld\n", (long) e);
}

static errcode_t do_open(void)
{
	errcode_t e;
	char opt[64];
	set_undo_io_backing_manager(unix_io_manager);
	set_undo_io_backup_file(undo);
	e = undo_io_manager->open(img, IO_FLAG_RW, &ch);
	if (e) return e;
	if (T) {
		snprintf(opt, sizeof opt, "tdb_data_size=%ld", T);
		e = io_channel_set_options(ch, opt);
		if (e) return e;
	}
	if (off) {
		snprintf(opt, sizeof opt, "offset=%ld", off);
		e = io_channel_set_options(ch, opt);
		if (e) return e;
	}
	return io_channel_set_blksize(ch, B);
}

int main(void)
{
	static char line[1 << 20], arg[1 << 20];
	static unsigned char buf[1 << 19];
	char cmd[16];
	long a, b;

	while (fgets(line, sizeof(line), stdin)) {
		if (sscanf(line, "%15s", cmd) != 1) continue;
		if (!strcmp(cmd, "N")) {
			errcode_t e;
			sscanf(line, "%*s %4000s %4000s %ld %ld %ld", img, undo, &B, &T, &off);
			unlink(undo);
			if (ch) io_channel_close(ch);
			ch = 0;
			e = do_open();
			if (e && ch) { io_channel_close(ch); ch = 0; }
			rc(e);
		} else if (!ch && strcmp(cmd, "N")) {
			printf("ERR -1\n");     /* channel could not be (re)opened: nothing is recorded */
		} else if (!strcmp(cmd, "W")) {
			sscanf(line, "%*s %ld %ld %1000000s", &a, &b, arg);
			unhex(arg, buf);
			rc(io_channel_write_blk64(ch, a, (int) b, buf));
		} else if (!strcmp(cmd, "WB")) {
			int n;
			sscanf(line, "%*s %ld %1000000s", &a, arg);
			n = unhex(arg, buf);
			rc(io_channel_write_blk64(ch, a, -n, buf));
		} else if (!strcmp(cmd, "WY")) {
			int n;
			sscanf(line, "%*s %ld %1000000s", &a, arg);
			n = unhex(arg, buf);
			rc(io_channel_write_byte(ch, a, n, buf));
		} else if (!strcmp(cmd, "Z")) {
			sscanf(line, "%*s %ld %ld", &a, &b);
			rc(io_channel_zeroout(ch, a, b));
		} else if (!strcmp(cmd, "SB")) {
			sscanf(line, "%*s %ld", &a);
			rc(io_channel_set_blksize(ch, a));
			B = a;
		} else if (!strcmp(cmd, "REOPEN")) {
			errcode_t e = io_channel_close(ch);
			ch = 0;
			if (!e) e = do_open();
			if (e && ch) { io_channel_close(ch); ch = 0; }
			rc(e);
		} else if (!strcmp(cmd, "C")) {
			rc(io_channel_close(ch));
			ch = 0;
		} else printf("?\n");
		fflush(stdout);
	}
	return 0;
}

/* C17 harness: drives a unix_io channel of the scratch libext2fs on a file.
 * stdin:  N <path> <blksz> <nblocks>   fresh file + channel
 *         R blk cnt | RB blk nbytes | W blk cnt hex | WB blk hex | WY off hex |
 *         Z blk cnt | SB n | F | COFF | CON | WT 0/1 | FAIL k (k-th next pwrite fails with EIO, 0 = off)
 *         C   close and dump the file
 * stdout: one line per op. */
#define _GNU_SOURCE
#include <stdio.h>
#include <stdlib.h>
#include <string.h>
#include <errno.h>
#include <unistd.h>
#include <fcntl.h>
#include <sys/syscall.h>
#include "ext2fs/ext2_fs.h"
#include "ext2fs/ext2fs.h"

static int fail_countdown = 0;      /* fail the k-th write-class syscall from now */
static int fails_injected = 0;
static char watched[4096];
static int watched_fd = -1;
static int sticky_fail;

/* interpose the write-class calls unix_io uses on the backing file */
ssize_t pwrite64(int fd, const void *buf, size_t n, off64_t off)
{
	if (fd == watched_fd && fail_countdown > 0 && --fail_countdown == 0) {
		fails_injected++;
		sticky_fail = 1;
		errno = EIO;
		return -1;
	}
	sticky_fail = 0;
	return syscall(SYS_pwrite64, fd, buf, n, off);
}
ssize_t pwrite(int fd, const void *buf, size_t n, off_t off)
{
	return pwrite64(fd, buf, n, off);
}
/* raw_write_blk falls back to lseek+write when pwrite fails: the injected
 * fault is a device fault, so the retry through write() fails as well */
ssize_t write(int fd, const void *buf, size_t n)
{
	if (fd == watched_fd && sticky_fail) {
		sticky_fail = 0;
		errno = EIO;
		return -1;
	}
	return syscall(SYS_write, fd, buf, n);
}

static io_channel ch;
static int handler_calls;
static errcode_t werr_handler(io_channel channel, unsigned long block, int count,
			      const void *data, size_t size, int actual, errcode_t error)
{
	handler_calls++;
	return error;
}

static int unhex(const char *h, unsigned char *out)
{
	int n = 0;
	while (h[0] && h[1] && h[0] != '\n') {
		unsigned v;
		sscanf(h, "%2x", &v);
		out[n++] = v;
		h += 2;
	}
	return n;
}

static void puthex(const unsigned char *b, long n)
{
	long i;
	for (i = 0; i < n; i++) printf("%02x", b[i]);
	printf("\n");
}

static void rc(errcode_t e)
{
	if (e == 0) printf("OK\n");
	else if (e == EXT2_ET_UNIMPLEMENTED) printf("UNIMPL\n");
	else printf("ERR\n");
}

int main(void)
{
	static char line[1 << 20], arg[1 << 20];
	static unsigned char buf[1 << 19];
	char cmd[16];
	long a, b;
	long nblocks = 0, blksz = 0;
	errcode_t e;

	while (fgets(line, sizeof(line), stdin)) {
		if (sscanf(line, "%15s", cmd) != 1) continue;
		if (!strcmp(cmd, "N")) {
			FILE *f;
			long i;
			sscanf(line, "%*s %4000s %ld %ld", watched, &blksz, &nblocks);
			f = fopen(watched, "wb");
			for (i = 0; i < blksz * nblocks; i++) fputc((i * 7 + 3) % 251, f);
			fclose(f);
			e = unix_io_manager->open(watched, IO_FLAG_RW, &ch);
			if (e) { printf("OPENFAIL\n"); return 2; }
			{
				/* find the fd of the backing file: highest fd opened on it */
				char p[64], t[4096]; int fd;
				watched_fd = -1;
				for (fd = 3; fd < 64; fd++) {
					ssize_t k;
					snprintf(p, sizeof p, "/proc/self/fd/%d", fd);
					k = readlink(p, t, sizeof t - 1);
					if (k > 0) { t[k] = 0; if (strstr(t, strrchr(watched, '/') ? strrchr(watched, '/') + 1 : watched)) watched_fd = fd; }
				}
			}
			io_channel_set_blksize(ch, blksz);
			fail_countdown = 0; fails_injected = 0; handler_calls = 0;
			printf("N\n");
		} else if (!strcmp(cmd, "R")) {
			sscanf(line, "%*s %ld %ld", &a, &b);
			memset(buf, 0xEE, b * blksz);
			e = io_channel_read_blk64(ch, a, (int) b, buf);
			if (e) rc(e); else puthex(buf, b * blksz);
		} else if (!strcmp(cmd, "RB")) {
			sscanf(line, "%*s %ld %ld", &a, &b);
			memset(buf, 0xEE, b);
			e = io_channel_read_blk64(ch, a, (int) -b, buf);
			if (e) rc(e); else puthex(buf, b);
		} else if (!strcmp(cmd, "W")) {
			sscanf(line, "%*s %ld %ld %1000000s", &a, &b, arg);
			unhex(arg, buf);
			rc(io_channel_write_blk64(ch, a, (int) b, buf));
		} else if (!strcmp(cmd, "WB")) {
			int n;
			sscanf(line, "%*s %ld %1000000s", &a, arg);
			n = unhex(arg, buf);
			rc(io_channel_write_blk64(ch, a, -n, buf));
		} else if (!strcmp(cmd, "WY")) {
			int n;
			sscanf(line, "%*s %ld %1000000s", &a, arg);
			n = unhex(arg, buf);
			rc(io_channel_write_byte(ch, a, n, buf));
		} else if (!strcmp(cmd, "Z")) {
			sscanf(line, "%*s %ld %ld", &a, &b);
			rc(io_channel_zeroout(ch, a, b));
		} else if (!strcmp(cmd, "SB")) {
			sscanf(line, "%*s %ld", &a);
			e = io_channel_set_blksize(ch, a);
			if (!e) blksz = a;
			rc(e);
		} else if (!strcmp(cmd, "F")) {
			rc(io_channel_flush(ch));
		} else if (!strcmp(cmd, "COFF")) {
			rc(io_channel_set_options(ch, "cache=off"));
		} else if (!strcmp(cmd, "CON")) {
			rc(io_channel_set_options(ch, "cache=on"));
		} else if (!strcmp(cmd, "WT")) {
			sscanf(line, "%*s %ld", &a);
			if (a) ch->flags |= CHANNEL_FLAGS_WRITETHROUGH;
			else ch->flags &= ~CHANNEL_FLAGS_WRITETHROUGH;
			printf("OK\n");
		} else if (!strcmp(cmd, "FAIL")) {
			sscanf(line, "%*s %ld", &a);
			fail_countdown = a;
			printf("OK\n");
		} else if (!strcmp(cmd, "HANDLER")) {
			ch->write_error = werr_handler;
			printf("OK\n");
		} else if (!strcmp(cmd, "C")) {
			FILE *f; long n;
			e = io_channel_close(ch);
			ch = 0;
			f = fopen(watched, "rb");
			n = fread(buf, 1, sizeof buf, f);
			fclose(f);
			printf("D %s %d %d ", e ? "ERR" : "OK", fails_injected, handler_calls);
			puthex(buf, n);
			unlink(watched);
		} else printf("?\n");
		fflush(stdout);
	}
	return 0;
}

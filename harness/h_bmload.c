/* C17 harness: allocation bitmaps loaded with a given number of threads.
 * usage: h_bmload <image> <num_threads>...   per thread count: "<n> <err> <block bitmap digest> <inode bitmap digest> <fs flags>" */
#include <stdio.h>
#include <stdlib.h>
#include <string.h>
#include "ext2fs/ext2_fs.h"
#include "ext2fs/ext2fs.h"

static unsigned long long digest(ext2fs_generic_bitmap bm, unsigned long long start, unsigned long long end)
{
	unsigned long long h = 1469598103934665603ULL, i;
	for (i = start; i <= end; i++) {
		h ^= (unsigned long long) (ext2fs_test_generic_bmap(bm, i) ? 1 : 0) + 2;
		h *= 1099511628211ULL;
	}
	return h;
}

int main(int argc, char **argv)
{
	int k;
	for (k = 2; k < argc; k++) {
		ext2_filsys fs;
		errcode_t err = ext2fs_open(argv[1], EXT2_FLAG_64BITS | EXT2_FLAG_THREADS, 0, 0, unix_io_manager, &fs);
		int n = atoi(argv[k]);
		if (err) { printf("%d OPEN %ld\n", n, (long) err); continue; }
		err = ext2fs_rw_bitmaps(fs, EXT2FS_BITMAPS_INODE | EXT2FS_BITMAPS_BLOCK, n);
		if (err) printf("%d ERR %ld\n", n, (long) err);
		else printf("%d 0 %llx %llx %x\n", n,
			    digest(fs->block_map, fs->super->s_first_data_block, ext2fs_blocks_count(fs->super) - 1),
			    digest(fs->inode_map, 1, fs->super->s_inodes_count),
			    fs->flags & (EXT2_FLAG_IGNORE_CSUM_ERRORS | EXT2_FLAG_BB_DIRTY | EXT2_FLAG_IB_DIRTY | EXT2_FLAG_DIRTY | EXT2_FLAG_CHANGED | EXT2_FLAG_BBITMAP_TAIL_PROBLEM | EXT2_FLAG_IBITMAP_TAIL_PROBLEM));
		ext2fs_free(fs);
	}
	return 0;
}

From E2V Require Import Crc.Crc Crc.Csum.
Require Extraction.
Require Import ExtrOcamlBasic.
Extraction Language OCaml.
Extraction "csum_model.ml" crc32c_spec crc16_spec crc32_be_spec seed_of_uuid sb_csum gd_csum gd_crc16
  bitmap_csum inode_csum dirent_csum dx_csum extent_csum xattr_csum mmp_csum jsb_csum lo16 hi16.

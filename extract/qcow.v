From E2V Require Import Qcow2.QcowIndex Qcow2.QcowWriter.
Require Extraction.
Require Import ExtrOcamlBasic.
Extraction Language OCaml.
Extraction "qcow_model.ml" l1_of l2_of blk_of rc_table_index rc_entry write_all.

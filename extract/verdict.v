From E2V Require Import Verdict.Verdict.
Require Extraction.
Require Import ExtrOcamlBasic.
Extraction Language OCaml.
Extraction "verdict_model.ml" exit_status.

From E2V Require Import Bitmap.RBModel Bitmap.BAModel.
Require Extraction.
Require Import ExtrOcamlBasic.
Extraction Language OCaml.
Definition run_rb (g : geom) (ops : list op) := run0 RB g ops.
Definition run_ba (al : N) (g : geom) (ops : list op) := run0 (BA al) g ops.
Definition run_fs (g : geom) (ops : list op) := run0 FSet g ops.
Extraction "bitmap_model.ml" run_rb run_ba run_fs.

From E2V Require Import Bitmap.RBModel Bitmap.BAModel Bitmap.BmResize.
Require Extraction.
Require Import ExtrOcamlBasic.
Extraction Language OCaml.
Definition run_rb (g : geom) (ops : list sop) := run_seg0 RB g ops.
Definition run_ba (al : N) (g : geom) (ops : list sop) := run_seg0 (BA al) g ops.
Definition run_fs (g : geom) (ops : list sop) := run_seg0 FSet g ops.
Extraction "bitmap_model.ml" run_rb run_ba run_fs.

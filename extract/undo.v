From E2V Require Import Undo.UndoModel.
Require Extraction.
Require Import ExtrOcamlBasic.
Extraction Language OCaml.
Extraction "undo_model.ml" uinit ustep e2undo rd_bytes.

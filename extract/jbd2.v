From E2V Require Import Jbd2.Jbd2Model.
Require Extraction.
Require Import ExtrOcamlBasic.
Extraction Language OCaml.
Extraction "jbd2_model.ml" recover.

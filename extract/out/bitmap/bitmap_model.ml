
type __ = Obj.t

(** val negb : bool -> bool **)

let negb = function
| true -> false
| false -> true

type nat =
| O
| S of nat

type ('a, 'b) sum =
| Inl of 'a
| Inr of 'b

(** val fst : ('a1 * 'a2) -> 'a1 **)

let fst = function
| (x, _) -> x

(** val snd : ('a1 * 'a2) -> 'a2 **)

let snd = function
| (_, y) -> y

(** val length : 'a1 list -> nat **)

let rec length = function
| [] -> O
| _ :: l' -> S (length l')

type comparison =
| Eq
| Lt
| Gt

module Coq__1 = struct
 (** val add : nat -> nat -> nat **)
 let rec add n0 m =
   match n0 with
   | O -> m
   | S p -> S (add p m)
end
include Coq__1

(** val sub : nat -> nat -> nat **)

let rec sub n0 m =
  match n0 with
  | O -> n0
  | S k -> (match m with
            | O -> n0
            | S l -> sub k l)

(** val eqb : bool -> bool -> bool **)

let eqb b1 b2 =
  if b1 then b2 else if b2 then false else true

(** val hd_error : 'a1 list -> 'a1 option **)

let hd_error = function
| [] -> None
| x :: _ -> Some x

(** val nth : nat -> 'a1 list -> 'a1 -> 'a1 **)

let rec nth n0 l default =
  match n0 with
  | O -> (match l with
          | [] -> default
          | x :: _ -> x)
  | S m -> (match l with
            | [] -> default
            | _ :: t0 -> nth m t0 default)

(** val fold_left : ('a1 -> 'a2 -> 'a1) -> 'a2 list -> 'a1 -> 'a1 **)

let rec fold_left f l a0 =
  match l with
  | [] -> a0
  | b :: t0 -> fold_left f t0 (f a0 b)

(** val forallb : ('a1 -> bool) -> 'a1 list -> bool **)

let rec forallb f = function
| [] -> true
| a :: l0 -> (&&) (f a) (forallb f l0)

(** val firstn : nat -> 'a1 list -> 'a1 list **)

let rec firstn n0 l =
  match n0 with
  | O -> []
  | S n1 -> (match l with
             | [] -> []
             | a :: l0 -> a :: (firstn n1 l0))

(** val repeat : 'a1 -> nat -> 'a1 list **)

let rec repeat x = function
| O -> []
| S k -> x :: (repeat x k)

type positive =
| XI of positive
| XO of positive
| XH

type n =
| N0
| Npos of positive

module Pos =
 struct
  type mask =
  | IsNul
  | IsPos of positive
  | IsNeg
 end

module Coq_Pos =
 struct
  (** val succ : positive -> positive **)

  let rec succ = function
  | XI p -> XO (succ p)
  | XO p -> XI p
  | XH -> XO XH

  (** val add : positive -> positive -> positive **)

  let rec add x y =
    match x with
    | XI p ->
      (match y with
       | XI q -> XO (add_carry p q)
       | XO q -> XI (add p q)
       | XH -> XO (succ p))
    | XO p ->
      (match y with
       | XI q -> XI (add p q)
       | XO q -> XO (add p q)
       | XH -> XI p)
    | XH -> (match y with
             | XI q -> XO (succ q)
             | XO q -> XI q
             | XH -> XO XH)

  (** val add_carry : positive -> positive -> positive **)

  and add_carry x y =
    match x with
    | XI p ->
      (match y with
       | XI q -> XI (add_carry p q)
       | XO q -> XO (add_carry p q)
       | XH -> XI (succ p))
    | XO p ->
      (match y with
       | XI q -> XO (add_carry p q)
       | XO q -> XI (add p q)
       | XH -> XO (succ p))
    | XH ->
      (match y with
       | XI q -> XI (succ q)
       | XO q -> XO (succ q)
       | XH -> XI XH)

  (** val pred_double : positive -> positive **)

  let rec pred_double = function
  | XI p -> XI (XO p)
  | XO p -> XI (pred_double p)
  | XH -> XH

  (** val pred_N : positive -> n **)

  let pred_N = function
  | XI p -> Npos (XO p)
  | XO p -> Npos (pred_double p)
  | XH -> N0

  type mask = Pos.mask =
  | IsNul
  | IsPos of positive
  | IsNeg

  (** val succ_double_mask : mask -> mask **)

  let succ_double_mask = function
  | IsNul -> IsPos XH
  | IsPos p -> IsPos (XI p)
  | IsNeg -> IsNeg

  (** val double_mask : mask -> mask **)

  let double_mask = function
  | IsPos p -> IsPos (XO p)
  | x0 -> x0

  (** val double_pred_mask : positive -> mask **)

  let double_pred_mask = function
  | XI p -> IsPos (XO (XO p))
  | XO p -> IsPos (XO (pred_double p))
  | XH -> IsNul

  (** val sub_mask : positive -> positive -> mask **)

  let rec sub_mask x y =
    match x with
    | XI p ->
      (match y with
       | XI q -> double_mask (sub_mask p q)
       | XO q -> succ_double_mask (sub_mask p q)
       | XH -> IsPos (XO p))
    | XO p ->
      (match y with
       | XI q -> succ_double_mask (sub_mask_carry p q)
       | XO q -> double_mask (sub_mask p q)
       | XH -> IsPos (pred_double p))
    | XH -> (match y with
             | XH -> IsNul
             | _ -> IsNeg)

  (** val sub_mask_carry : positive -> positive -> mask **)

  and sub_mask_carry x y =
    match x with
    | XI p ->
      (match y with
       | XI q -> succ_double_mask (sub_mask_carry p q)
       | XO q -> double_mask (sub_mask p q)
       | XH -> IsPos (pred_double p))
    | XO p ->
      (match y with
       | XI q -> double_mask (sub_mask_carry p q)
       | XO q -> succ_double_mask (sub_mask_carry p q)
       | XH -> double_pred_mask p)
    | XH -> IsNeg

  (** val mul : positive -> positive -> positive **)

  let rec mul x y =
    match x with
    | XI p -> add y (XO (mul p y))
    | XO p -> XO (mul p y)
    | XH -> y

  (** val iter : ('a1 -> 'a1) -> 'a1 -> positive -> 'a1 **)

  let rec iter f x = function
  | XI n' -> f (iter f (iter f x n') n')
  | XO n' -> iter f (iter f x n') n'
  | XH -> f x

  (** val pow : positive -> positive -> positive **)

  let pow x =
    iter (mul x) XH

  (** val compare_cont : comparison -> positive -> positive -> comparison **)

  let rec compare_cont r x y =
    match x with
    | XI p ->
      (match y with
       | XI q -> compare_cont r p q
       | XO q -> compare_cont Gt p q
       | XH -> Gt)
    | XO p ->
      (match y with
       | XI q -> compare_cont Lt p q
       | XO q -> compare_cont r p q
       | XH -> Gt)
    | XH -> (match y with
             | XH -> r
             | _ -> Lt)

  (** val compare : positive -> positive -> comparison **)

  let compare =
    compare_cont Eq

  (** val eqb : positive -> positive -> bool **)

  let rec eqb p q =
    match p with
    | XI p0 -> (match q with
                | XI q0 -> eqb p0 q0
                | _ -> false)
    | XO p0 -> (match q with
                | XO q0 -> eqb p0 q0
                | _ -> false)
    | XH -> (match q with
             | XH -> true
             | _ -> false)

  (** val coq_Nsucc_double : n -> n **)

  let coq_Nsucc_double = function
  | N0 -> Npos XH
  | Npos p -> Npos (XI p)

  (** val coq_Ndouble : n -> n **)

  let coq_Ndouble = function
  | N0 -> N0
  | Npos p -> Npos (XO p)

  (** val coq_lor : positive -> positive -> positive **)

  let rec coq_lor p q =
    match p with
    | XI p0 ->
      (match q with
       | XI q0 -> XI (coq_lor p0 q0)
       | XO q0 -> XI (coq_lor p0 q0)
       | XH -> p)
    | XO p0 ->
      (match q with
       | XI q0 -> XI (coq_lor p0 q0)
       | XO q0 -> XO (coq_lor p0 q0)
       | XH -> XI p0)
    | XH -> (match q with
             | XO q0 -> XI q0
             | _ -> q)

  (** val ldiff : positive -> positive -> n **)

  let rec ldiff p q =
    match p with
    | XI p0 ->
      (match q with
       | XI q0 -> coq_Ndouble (ldiff p0 q0)
       | XO q0 -> coq_Nsucc_double (ldiff p0 q0)
       | XH -> Npos (XO p0))
    | XO p0 ->
      (match q with
       | XI q0 -> coq_Ndouble (ldiff p0 q0)
       | XO q0 -> coq_Ndouble (ldiff p0 q0)
       | XH -> Npos p)
    | XH -> (match q with
             | XO _ -> Npos XH
             | _ -> N0)

  (** val shiftl : positive -> n -> positive **)

  let shiftl p = function
  | N0 -> p
  | Npos n1 -> iter (fun x -> XO x) p n1

  (** val testbit : positive -> n -> bool **)

  let rec testbit p n0 =
    match p with
    | XI p0 -> (match n0 with
                | N0 -> true
                | Npos n1 -> testbit p0 (pred_N n1))
    | XO p0 -> (match n0 with
                | N0 -> false
                | Npos n1 -> testbit p0 (pred_N n1))
    | XH -> (match n0 with
             | N0 -> true
             | Npos _ -> false)

  (** val iter_op : ('a1 -> 'a1 -> 'a1) -> positive -> 'a1 -> 'a1 **)

  let rec iter_op op0 p a =
    match p with
    | XI p0 -> op0 a (iter_op op0 p0 (op0 a a))
    | XO p0 -> iter_op op0 p0 (op0 a a)
    | XH -> a

  (** val to_nat : positive -> nat **)

  let to_nat x =
    iter_op Coq__1.add x (S O)

  (** val of_succ_nat : nat -> positive **)

  let rec of_succ_nat = function
  | O -> XH
  | S x -> succ (of_succ_nat x)
 end

module N =
 struct
  (** val succ_double : n -> n **)

  let succ_double = function
  | N0 -> Npos XH
  | Npos p -> Npos (XI p)

  (** val double : n -> n **)

  let double = function
  | N0 -> N0
  | Npos p -> Npos (XO p)

  (** val add : n -> n -> n **)

  let add n0 m =
    match n0 with
    | N0 -> m
    | Npos p -> (match m with
                 | N0 -> n0
                 | Npos q -> Npos (Coq_Pos.add p q))

  (** val sub : n -> n -> n **)

  let sub n0 m =
    match n0 with
    | N0 -> N0
    | Npos n' ->
      (match m with
       | N0 -> n0
       | Npos m' ->
         (match Coq_Pos.sub_mask n' m' with
          | Coq_Pos.IsPos p -> Npos p
          | _ -> N0))

  (** val mul : n -> n -> n **)

  let mul n0 m =
    match n0 with
    | N0 -> N0
    | Npos p -> (match m with
                 | N0 -> N0
                 | Npos q -> Npos (Coq_Pos.mul p q))

  (** val compare : n -> n -> comparison **)

  let compare n0 m =
    match n0 with
    | N0 -> (match m with
             | N0 -> Eq
             | Npos _ -> Lt)
    | Npos n' -> (match m with
                  | N0 -> Gt
                  | Npos m' -> Coq_Pos.compare n' m')

  (** val eqb : n -> n -> bool **)

  let eqb n0 m =
    match n0 with
    | N0 -> (match m with
             | N0 -> true
             | Npos _ -> false)
    | Npos p -> (match m with
                 | N0 -> false
                 | Npos q -> Coq_Pos.eqb p q)

  (** val leb : n -> n -> bool **)

  let leb x y =
    match compare x y with
    | Gt -> false
    | _ -> true

  (** val ltb : n -> n -> bool **)

  let ltb x y =
    match compare x y with
    | Lt -> true
    | _ -> false

  (** val min : n -> n -> n **)

  let min n0 n' =
    match compare n0 n' with
    | Gt -> n'
    | _ -> n0

  (** val div2 : n -> n **)

  let div2 = function
  | N0 -> N0
  | Npos p0 -> (match p0 with
                | XI p -> Npos p
                | XO p -> Npos p
                | XH -> N0)

  (** val pow : n -> n -> n **)

  let pow n0 = function
  | N0 -> Npos XH
  | Npos p0 -> (match n0 with
                | N0 -> N0
                | Npos q -> Npos (Coq_Pos.pow q p0))

  (** val pos_div_eucl : positive -> n -> n * n **)

  let rec pos_div_eucl a b =
    match a with
    | XI a' ->
      let (q, r) = pos_div_eucl a' b in
      let r' = succ_double r in
      if leb b r' then ((succ_double q), (sub r' b)) else ((double q), r')
    | XO a' ->
      let (q, r) = pos_div_eucl a' b in
      let r' = double r in
      if leb b r' then ((succ_double q), (sub r' b)) else ((double q), r')
    | XH ->
      (match b with
       | N0 -> (N0, (Npos XH))
       | Npos p -> (match p with
                    | XH -> ((Npos XH), N0)
                    | _ -> (N0, (Npos XH))))

  (** val div_eucl : n -> n -> n * n **)

  let div_eucl a b =
    match a with
    | N0 -> (N0, N0)
    | Npos na -> (match b with
                  | N0 -> (N0, a)
                  | Npos _ -> pos_div_eucl na b)

  (** val div : n -> n -> n **)

  let div a b =
    fst (div_eucl a b)

  (** val modulo : n -> n -> n **)

  let modulo a b =
    snd (div_eucl a b)

  (** val coq_lor : n -> n -> n **)

  let coq_lor n0 m =
    match n0 with
    | N0 -> m
    | Npos p -> (match m with
                 | N0 -> n0
                 | Npos q -> Npos (Coq_Pos.coq_lor p q))

  (** val ldiff : n -> n -> n **)

  let ldiff n0 m =
    match n0 with
    | N0 -> N0
    | Npos p -> (match m with
                 | N0 -> n0
                 | Npos q -> Coq_Pos.ldiff p q)

  (** val shiftl : n -> n -> n **)

  let shiftl a n0 =
    match a with
    | N0 -> N0
    | Npos a0 -> Npos (Coq_Pos.shiftl a0 n0)

  (** val shiftr : n -> n -> n **)

  let shiftr a = function
  | N0 -> a
  | Npos p -> Coq_Pos.iter div2 a p

  (** val testbit : n -> n -> bool **)

  let testbit a n0 =
    match a with
    | N0 -> false
    | Npos p -> Coq_Pos.testbit p n0

  (** val to_nat : n -> nat **)

  let to_nat = function
  | N0 -> O
  | Npos p -> Coq_Pos.to_nat p

  (** val of_nat : nat -> n **)

  let of_nat = function
  | O -> N0
  | S n' -> Npos (Coq_Pos.of_succ_nat n')

  (** val setbit : n -> n -> n **)

  let setbit a n0 =
    coq_lor a (shiftl (Npos XH) n0)

  (** val clearbit : n -> n -> n **)

  let clearbit a n0 =
    ldiff a (shiftl (Npos XH) n0)
 end

type backend = { b_empty : __; b_mark : (__ -> n -> __ * bool);
                 b_unmark : (__ -> n -> __ * bool);
                 b_test : (__ -> n -> __ * bool);
                 b_mark_ext : (__ -> n -> n -> __);
                 b_unmark_ext : (__ -> n -> n -> __);
                 b_test_clear : (__ -> n -> n -> bool);
                 b_ffz : (__ -> n -> n -> n option);
                 b_ffs : (__ -> n -> n -> n option);
                 b_get : (__ -> n -> n -> n -> bool list);
                 b_set : (__ -> n -> n -> bool list -> __);
                 b_clear : (__ -> __); b_copy : (__ -> __ * __) }

type t = __

type geom = { g_start : n; g_end : n; g_real_end : n; g_cbits : n }

type op =
| Mark of n
| Unmark of n
| Test of n
| MarkRange of n * n
| UnmarkRange of n * n
| TestRange of n * n
| FindZero of n * n
| FindSet of n * n
| GetRange of n * n
| SetRange of n * n * bool list
| Clear
| SetPadding
| Snapshot
| Compare

type res =
| RVoid
| RInt of n
| RErr of n
| RPos of n
| RBits of bool list

(** val eINVAL : n **)

let eINVAL =
  Npos (XO (XI (XI (XO XH))))

(** val eNOENT : n **)

let eNOENT =
  Npos (XO XH)

(** val nEQ : n **)

let nEQ =
  Npos XH

(** val b2n : bool -> n **)

let b2n = function
| true -> Npos XH
| false -> N0

(** val shr : geom -> n -> n **)

let shr g x =
  N.shiftr x g.g_cbits

(** val in_range : geom -> n -> bool **)

let in_range g c =
  (&&) (N.leb g.g_start c) (N.leb c g.g_end)

(** val conv_range : geom -> n -> n -> n * n **)

let conv_range g block num =
  let e =
    shr g
      (N.add (N.add block num)
        (N.sub (N.shiftl (Npos XH) g.g_cbits) (Npos XH)))
  in
  let c = shr g block in
  (c,
  (N.modulo (N.sub e c)
    (N.pow (Npos (XO XH)) (Npos (XO (XO (XO (XO (XO XH)))))))))

(** val range_ok : geom -> n -> n -> bool **)

let range_ok g c n0 =
  (&&) ((&&) (N.leb g.g_start c) (N.leb c g.g_end))
    (if N.eqb (N.add c n0) N0
     then false
     else N.leb (N.sub (N.add c n0) (Npos XH)) g.g_end)

type gstate = t * t option

(** val cmp_loop : backend -> geom -> nat -> n -> t -> t -> (t * t) * bool **)

let rec cmp_loop b g fuel i t1 t2 =
  match fuel with
  | O -> ((t1, t2), true)
  | S f ->
    let (t1', r1) = b.b_test t1 (N.sub i g.g_start) in
    let (t2', r2) = b.b_test t2 (N.sub i g.g_start) in
    if eqb r1 r2
    then cmp_loop b g f (N.add i (Npos XH)) t1' t2'
    else ((t1', t2'), false)

(** val gen_step : backend -> geom -> gstate -> op -> gstate * res **)

let gen_step b g st o =
  let (t0, snap) = st in
  (match o with
   | Mark a ->
     let c = shr g a in
     if in_range g c
     then let (t', r) = b.b_mark t0 (N.sub c g.g_start) in
          ((t', snap), (RInt (b2n r)))
     else (st, (RInt N0))
   | Unmark a ->
     let c = shr g a in
     if in_range g c
     then let (t', r) = b.b_unmark t0 (N.sub c g.g_start) in
          ((t', snap), (RInt (b2n r)))
     else (st, (RInt N0))
   | Test a ->
     let c = shr g a in
     if in_range g c
     then let (t', r) = b.b_test t0 (N.sub c g.g_start) in
          ((t', snap), (RInt (b2n r)))
     else (st, (RInt N0))
   | MarkRange (a, n0) ->
     let (c, k) = conv_range g a n0 in
     if range_ok g c k
     then (((b.b_mark_ext t0 (N.sub c g.g_start) k), snap), RVoid)
     else (st, RVoid)
   | UnmarkRange (a, n0) ->
     let (c, k) = conv_range g a n0 in
     if range_ok g c k
     then (((b.b_unmark_ext t0 (N.sub c g.g_start) k), snap), RVoid)
     else (st, RVoid)
   | TestRange (a, n0) ->
     if N.eqb n0 (Npos XH)
     then let c = shr g a in
          if in_range g c
          then let (t', r) = b.b_test t0 (N.sub c g.g_start) in
               ((t', snap), (RInt (b2n (negb r))))
          else (st, (RInt (Npos XH)))
     else let (c, k) = conv_range g a n0 in
          if range_ok g c k
          then (st, (RInt (b2n (b.b_test_clear t0 (N.sub c g.g_start) k))))
          else (st, (RErr eINVAL))
   | FindZero (a, b0) ->
     let ca = shr g a in
     let cb = shr g b0 in
     if (||) ((||) (N.ltb ca g.g_start) (N.ltb g.g_end cb)) (N.ltb b0 a)
     then (st, (RErr eINVAL))
     else (match b.b_ffz t0 (N.sub ca g.g_start) (N.sub cb g.g_start) with
           | Some p ->
             let out = N.shiftl (N.add p g.g_start) g.g_cbits in
             (st, (RPos (if N.leb a out then out else a)))
           | None -> (st, (RErr eNOENT)))
   | FindSet (a, b0) ->
     let ca = shr g a in
     let cb = shr g b0 in
     if (||) ((||) (N.ltb ca g.g_start) (N.ltb g.g_end cb)) (N.ltb b0 a)
     then (st, (RErr eINVAL))
     else (match b.b_ffs t0 (N.sub ca g.g_start) (N.sub cb g.g_start) with
           | Some p ->
             let out = N.shiftl (N.add p g.g_start) g.g_cbits in
             (st, (RPos (if N.leb a out then out else a)))
           | None -> (st, (RErr eNOENT)))
   | GetRange (a, n0) -> (st, (RBits (b.b_get t0 g.g_start a n0)))
   | SetRange (a, n0, bits) ->
     (((b.b_set t0 g.g_start a (firstn (N.to_nat n0) bits)), snap), RVoid)
   | Clear -> (((b.b_clear t0), snap), RVoid)
   | SetPadding ->
     (((b.b_mark_ext t0 (N.sub (N.add g.g_end (Npos XH)) g.g_start)
         (N.sub g.g_real_end g.g_end)), snap), RVoid)
   | Snapshot -> let (t', c) = b.b_copy t0 in ((t', (Some c)), RVoid)
   | Compare ->
     (match snap with
      | Some s ->
        let (p, eq) =
          cmp_loop b g (N.to_nat (N.sub (N.add g.g_end (Npos XH)) g.g_start))
            g.g_start t0 s
        in
        let (t', s') = p in
        ((t', (Some s')), (if eq then RInt N0 else RErr nEQ))
      | None -> (st, (RErr eINVAL))))

type fset = n -> bool

(** val f_rng : n -> n -> n -> bool **)

let f_rng a n0 j =
  (&&) (N.leb a j) (N.ltb j (N.add a n0))

(** val f_scan : fset -> bool -> n -> nat -> n option **)

let rec f_scan m want a = function
| O -> None
| S k ->
  if eqb (m a) want then Some a else f_scan m want (N.add a (Npos XH)) k

(** val f_all_clear : fset -> n -> nat -> bool **)

let rec f_all_clear m a = function
| O -> true
| S k -> (&&) (negb (m a)) (f_all_clear m (N.add a (Npos XH)) k)

(** val f_bits : fset -> n -> nat -> bool list **)

let rec f_bits m a = function
| O -> []
| S k -> (m a) :: (f_bits m (N.add a (Npos XH)) k)

(** val fSet : backend **)

let fSet =
  { b_empty = (Obj.magic (fun _ -> false)); b_mark = (fun m i ->
    ((Obj.magic (fun j -> (||) (N.eqb j i) (Obj.magic m j))),
    (Obj.magic m i))); b_unmark = (fun m i ->
    ((Obj.magic (fun j -> (&&) (negb (N.eqb j i)) (Obj.magic m j))),
    (Obj.magic m i))); b_test = (fun m i -> (m, (Obj.magic m i)));
    b_mark_ext = (fun m a n0 ->
    Obj.magic (fun j -> (||) (f_rng a n0 j) (Obj.magic m j))); b_unmark_ext =
    (fun m a n0 ->
    Obj.magic (fun j -> (&&) (negb (f_rng a n0 j)) (Obj.magic m j)));
    b_test_clear = (fun m a n0 -> f_all_clear (Obj.magic m) a (N.to_nat n0));
    b_ffz = (fun m a b ->
    f_scan (Obj.magic m) false a (N.to_nat (N.sub (N.add b (Npos XH)) a)));
    b_ffs = (fun m a b ->
    f_scan (Obj.magic m) true a (N.to_nat (N.sub (N.add b (Npos XH)) a)));
    b_get = (fun m gs a n0 ->
    f_bits (Obj.magic m) (N.sub a gs) (N.to_nat n0)); b_set =
    (fun m gs a bits ->
    Obj.magic (fun j ->
      if f_rng (N.sub a gs) (N.of_nat (length bits)) j
      then nth (N.to_nat (N.sub j (N.sub a gs))) bits false
      else Obj.magic m j)); b_clear = (fun _ -> Obj.magic (fun _ -> false));
    b_copy = (fun m -> (m, m)) }

type node = { nid : n; ns : n; nc : n }

(** val nend : node -> n **)

let nend e =
  N.add e.ns e.nc

type rb = { nodes : node list; wc : n option; rc : n option; rn : n option;
            fresh : n }

(** val rb_empty : rb **)

let rb_empty =
  { nodes = []; wc = None; rc = None; rn = None; fresh = N0 }

(** val lookup : n -> node list -> node option **)

let rec lookup i = function
| [] -> None
| e :: t0 -> if N.eqb e.nid i then Some e else lookup i t0

(** val succ_of : n -> node list -> node option **)

let rec succ_of i = function
| [] -> None
| e :: t0 -> if N.eqb e.nid i then hd_error t0 else succ_of i t0

(** val cursor : n option -> node list -> node option **)

let cursor c l =
  match c with
  | Some i -> lookup i l
  | None -> None

(** val inside : node -> n -> bool **)

let inside e b =
  (&&) (N.leb e.ns b) (N.ltb b (nend e))

(** val find_cont : n -> node list -> node option **)

let rec find_cont b = function
| [] -> None
| e :: t0 -> if inside e b then Some e else find_cont b t0

(** val mem_nodes : node list -> n -> bool **)

let mem_nodes l b =
  match find_cont b l with
  | Some _ -> true
  | None -> false

(** val clear_if : n option -> n -> n option **)

let clear_if c i =
  match c with
  | Some j -> if N.eqb j i then None else c
  | None -> None

(** val free_ids : rb -> n list -> node list -> rb **)

let free_ids st ids l =
  fold_left (fun s i -> { nodes = s.nodes; wc = (clear_if s.wc i); rc =
    (clear_if s.rc i); rn = (clear_if s.rn i); fresh = s.fresh }) ids
    { nodes = l; wc = st.wc; rc = st.rc; rn = st.rn; fresh = st.fresh }

(** val rb_search_test : rb -> n -> rb * bool **)

let rb_search_test st bit =
  match find_cont bit st.nodes with
  | Some e ->
    ({ nodes = st.nodes; wc = st.wc; rc = (Some e.nid); rn = None; fresh =
      st.fresh }, true)
  | None -> (st, false)

(** val rb_test_bit : rb -> n -> rb * bool **)

let rb_test_bit st bit =
  match cursor st.rc st.nodes with
  | Some r ->
    if inside r bit
    then (st, true)
    else let nx =
           match cursor st.rn st.nodes with
           | Some x -> Some x
           | None ->
             (match st.rc with
              | Some i -> succ_of i st.nodes
              | None -> None)
         in
         let st1 = { nodes = st.nodes; wc = st.wc; rc = st.rc; rn =
           (match nx with
            | Some x -> Some x.nid
            | None -> None); fresh = st.fresh }
         in
         let gap =
           match nx with
           | Some x -> (&&) (N.leb (nend r) bit) (N.ltb bit x.ns)
           | None -> false
         in
         if gap
         then (st1, false)
         else let st2 = { nodes = st.nodes; wc = st.wc; rc = None; rn = None;
                fresh = st.fresh }
              in
              (match cursor st.wc st.nodes with
               | Some w ->
                 if inside w bit then (st2, true) else rb_search_test st2 bit
               | None -> rb_search_test st2 bit)
  | None -> rb_search_test st bit

(** val merge_right : n -> n -> node list -> (n * node list) * n list **)

let rec merge_right start count post = match post with
| [] -> ((count, []), [])
| e :: t0 ->
  if N.leb (nend e) start
  then let (p0, f) = merge_right start count t0 in
       let (c, p) = p0 in ((c, (e :: p)), f)
  else if N.ltb (N.add start count) e.ns
       then ((count, post), [])
       else if N.leb (nend e) (N.add start count)
            then let (p0, f) = merge_right start count t0 in
                 (p0, (e.nid :: f))
            else (((N.add count (N.sub (nend e) (N.add start count))), t0),
                   (e.nid :: []))

(** val ins_nodes :
    n -> n -> n -> node list -> ((node list * n) * n list) * n option **)

let rec ins_nodes fr start count l = match l with
| [] -> (((({ nid = fr; ns = start; nc = count } :: []), N0), []), (Some fr))
| e :: t0 ->
  if N.ltb start e.ns
  then let (p0, f) = merge_right start count l in
       let (c, p) = p0 in
       (((({ nid = fr; ns = start; nc = c } :: p), N0), f), (Some fr))
  else if N.leb start (nend e)
       then if N.leb (N.add start count) (nend e)
            then (((l, (Npos XH)), []), None)
            else let (p0, f) =
                   merge_right e.ns (N.add count (N.sub start e.ns)) t0
                 in
                 let (c, p) = p0 in
                 (((({ nid = e.nid; ns = e.ns; nc = c } :: p),
                 (if N.eqb (nend e) start then N0 else Npos XH)), f), None)
       else let (p, n0) = ins_nodes fr start count t0 in
            let (p0, f) = p in let (l', r) = p0 in ((((e :: l'), r), f), n0)

(** val ins_at : n -> n -> n -> node list -> (node list * n) * n list **)

let rec ins_at i start count l = match l with
| [] -> (([], N0), [])
| e :: t0 ->
  if N.eqb e.nid i
  then if N.leb (N.add start count) (nend e)
       then ((l, (Npos XH)), [])
       else let (p0, f) = merge_right e.ns (N.add count (N.sub start e.ns)) t0
            in
            let (c, p) = p0 in
            ((({ nid = e.nid; ns = e.ns; nc = c } :: p),
            (if N.eqb (nend e) start then N0 else Npos XH)), f)
  else let (p, f) = ins_at i start count t0 in
       let (l', r) = p in (((e :: l'), r), f)

(** val rb_insert_extent : rb -> n -> n -> rb * n **)

let rb_insert_extent st start count =
  if N.eqb count N0
  then (st, N0)
  else let st0 = { nodes = st.nodes; wc = st.wc; rc = st.rc; rn = None;
         fresh = st.fresh }
       in
       let short =
         match cursor st0.wc st0.nodes with
         | Some w ->
           if (&&) (N.leb w.ns start) (N.leb start (nend w))
           then Some w.nid
           else None
         | None -> None
       in
       (match short with
        | Some i ->
          let (p, f) = ins_at i start count st0.nodes in
          let (l, r) = p in ((free_ids st0 f l), r)
        | None ->
          let (p, n0) = ins_nodes st0.fresh start count st0.nodes in
          let (p0, f) = p in
          let (l, r) = p0 in
          let st' =
            match n0 with
            | Some i ->
              { nodes = st0.nodes; wc = (Some i); rc = st0.rc; rn = st0.rn;
                fresh = (N.add st0.fresh (Npos XH)) }
            | None -> st0
          in
          ((free_ids st' f l), r))

(** val scan_right : n -> n -> node list -> n -> (node list * n) * n list **)

let rec scan_right start count l ret =
  match l with
  | [] -> (([], ret), [])
  | e :: t0 ->
    if N.leb (nend e) start
    then let (p0, f) = scan_right start count t0 ret in
         let (p, r) = p0 in (((e :: p), r), f)
    else if N.leb (N.add start count) e.ns
         then ((l, ret), [])
         else if N.leb (nend e) (N.add start count)
              then let (p0, f) = scan_right start count t0 (Npos XH) in
                   (p0, (e.nid :: f))
              else ((({ nid = e.nid; ns = (N.add start count); nc =
                     (N.sub e.nc (N.sub (N.add start count) e.ns)) } :: t0),
                     (Npos XH)), [])

type rm_out =
| RmDone of node list * n * n list
| RmSplit of node list * n * n

(** val rm_nodes : n -> n -> node list -> rm_out **)

let rec rm_nodes start count l = match l with
| [] -> RmDone ([], N0, [])
| e :: t0 ->
  if inside e start
  then if (&&) (N.ltb e.ns start) (N.ltb (N.add start count) (nend e))
       then RmSplit (({ nid = e.nid; ns = e.ns; nc =
              (N.sub start e.ns) } :: t0), (N.add start count),
              (N.sub (nend e) (N.add start count)))
       else let trunc = N.leb (nend e) (N.add start count) in
            let c' = if trunc then N.sub start e.ns else e.nc in
            let ret = if trunc then Npos XH else N0 in
            if N.eqb c' N0
            then let (p0, f) = scan_right start count t0 ret in
                 let (p, r) = p0 in RmDone (p, r, (e.nid :: f))
            else if N.eqb start e.ns
                 then RmDone (({ nid = e.nid; ns = (N.add e.ns count); nc =
                        (N.sub c' count) } :: t0), (Npos XH), [])
                 else let (p0, f) = scan_right start count t0 ret in
                      let (p, r) = p0 in
                      RmDone (({ nid = e.nid; ns = e.ns; nc = c' } :: p), r,
                      f)
  else if N.ltb start e.ns
       then let (p0, f) = scan_right start count l N0 in
            let (p, r) = p0 in RmDone (p, r, f)
       else (match rm_nodes start count t0 with
             | RmDone (p, r, f) -> RmDone ((e :: p), r, f)
             | RmSplit (p, a, b) -> RmSplit ((e :: p), a, b))

(** val rb_remove_extent : rb -> n -> n -> rb * n **)

let rb_remove_extent st start count =
  match st.nodes with
  | [] -> (st, N0)
  | _ :: _ ->
    (match rm_nodes start count st.nodes with
     | RmDone (l, r, f) -> ((free_ids st f l), r)
     | RmSplit (l, a, b) ->
       let (st', _) =
         rb_insert_extent { nodes = l; wc = st.wc; rc = st.rc; rn = st.rn;
           fresh = st.fresh } a b
       in
       (st', (Npos XH)))

(** val tc_scan : n -> n -> node list -> bool **)

let rec tc_scan start len = function
| [] -> true
| e :: t0 ->
  if N.leb (nend e) start
  then tc_scan start len t0
  else N.leb (N.add start len) e.ns

(** val rb_test_clear : rb -> n -> n -> bool **)

let rb_test_clear st start len =
  if N.eqb len N0
  then true
  else (match st.nodes with
        | [] -> true
        | _ :: _ ->
          (match find_cont start st.nodes with
           | Some _ -> false
           | None -> tc_scan start len st.nodes))

(** val rb_ffz : rb -> n -> n -> n option **)

let rb_ffz st a b =
  match find_cont a st.nodes with
  | Some e -> if N.leb (nend e) b then Some (nend e) else None
  | None -> Some a

(** val first_after : n -> node list -> node option **)

let rec first_after a = function
| [] -> None
| e :: t0 -> if N.ltb a e.ns then Some e else first_after a t0

(** val rb_ffs : rb -> n -> n -> n option **)

let rb_ffs st a b =
  match st.nodes with
  | [] -> None
  | _ :: _ ->
    (match find_cont a st.nodes with
     | Some _ -> Some a
     | None ->
       (match first_after a st.nodes with
        | Some e -> if N.leb e.ns b then Some e.ns else None
        | None -> None))

(** val paint : node list -> n -> bool list -> n -> bool list **)

let rec paint l start out pos =
  match out with
  | [] -> []
  | _ :: r ->
    (mem_nodes l (N.add start pos)) :: (paint l start r (N.add pos (Npos XH)))

(** val rb_get : rb -> n -> n -> n -> bool list **)

let rb_get st gs a n0 =
  paint st.nodes (N.sub a gs) (repeat false (N.to_nat n0)) N0

(** val set_runs : rb -> n -> bool list -> n -> n option -> rb **)

let rec set_runs st base bits i first =
  match bits with
  | [] ->
    (match first with
     | Some f -> fst (rb_insert_extent st (N.add base f) (N.sub i f))
     | None -> st)
  | b :: r ->
    if b
    then set_runs st base r (N.add i (Npos XH))
           (match first with
            | Some f -> Some f
            | None -> Some i)
    else (match first with
          | Some f ->
            set_runs (fst (rb_insert_extent st (N.add base f) (N.sub i f)))
              base r (N.add i (Npos XH)) None
          | None -> set_runs st base r (N.add i (Npos XH)) None)

(** val rb_set : rb -> n -> n -> bool list -> rb **)

let rb_set st gs a bits =
  let st1 = fst (rb_remove_extent st (N.sub a gs) (N.of_nat (length bits))) in
  set_runs st1 (N.sub a gs) bits N0 None

(** val rb_clear : rb -> rb **)

let rb_clear st =
  { nodes = []; wc = None; rc = None; rn = None; fresh = st.fresh }

(** val rb_copy : rb -> rb * rb **)

let rb_copy st =
  ({ nodes = st.nodes; wc = st.wc; rc = None; rn = st.rn; fresh = st.fresh },
    { nodes = st.nodes; wc = None; rc = None; rn = None; fresh = st.fresh })

(** val rB : backend **)

let rB =
  { b_empty = (Obj.magic rb_empty); b_mark = (fun st i ->
    let (s, r) = rb_insert_extent (Obj.magic st) i (Npos XH) in
    ((Obj.magic s), (negb (N.eqb r N0)))); b_unmark = (fun st i ->
    let (s, r) = rb_remove_extent (Obj.magic st) i (Npos XH) in
    ((Obj.magic s), (negb (N.eqb r N0)))); b_test = (Obj.magic rb_test_bit);
    b_mark_ext = (fun st a n0 -> fst (Obj.magic rb_insert_extent st a n0));
    b_unmark_ext = (fun st a n0 -> fst (Obj.magic rb_remove_extent st a n0));
    b_test_clear = (Obj.magic rb_test_clear); b_ffz = (Obj.magic rb_ffz);
    b_ffs = (Obj.magic rb_ffs); b_get = (Obj.magic rb_get); b_set =
    (Obj.magic rb_set); b_clear = (Obj.magic rb_clear); b_copy =
    (Obj.magic rb_copy) }

type ba = n

(** val tb : ba -> n -> bool **)

let tb =
  N.testbit

(** val bits_from : n -> nat -> n list **)

let rec bits_from i = function
| O -> []
| S k' -> i :: (bits_from (N.add i (Npos XH)) k')

(** val all_clr : ba -> n -> nat -> bool **)

let all_clr b i k =
  forallb (fun j -> negb (tb b j)) (bits_from i k)

(** val set_loop : ba -> n -> nat -> ba **)

let rec set_loop b i = function
| O -> b
| S k' -> set_loop (N.setbit b i) (N.add i (Npos XH)) k'

(** val clr_loop : ba -> n -> nat -> ba **)

let rec clr_loop b i = function
| O -> b
| S k' -> clr_loop (N.clearbit b i) (N.add i (Npos XH)) k'

(** val hit : ba -> bool -> n -> bool **)

let hit b want i =
  eqb (tb b i) want

(** val byte_skip : ba -> bool -> n -> bool **)

let byte_skip b want i =
  forallb (fun j -> negb (hit b want j))
    (bits_from i (S (S (S (S (S (S (S (S O)))))))))

(** val word_skip : ba -> bool -> n -> bool **)

let word_skip b want i =
  forallb (fun j -> negb (hit b want j))
    (bits_from i (S (S (S (S (S (S (S (S (S (S (S (S (S (S (S (S (S (S (S (S
      (S (S (S (S (S (S (S (S (S (S (S (S (S (S (S (S (S (S (S (S (S (S (S (S
      (S (S (S (S (S (S (S (S (S (S (S (S (S (S (S (S (S (S (S (S
      O)))))))))))))))))))))))))))))))))))))))))))))))))))))))))))))))))

(** val ph1 : ba -> bool -> nat -> n -> n -> (n, n * n) sum **)

let rec ph1 b want fuel pos cnt =
  match fuel with
  | O -> Inr (pos, cnt)
  | S f ->
    if (&&) (negb (N.eqb (N.modulo pos (Npos (XO (XO (XO XH))))) N0))
         (N.ltb N0 cnt)
    then if hit b want pos
         then Inl pos
         else ph1 b want f (N.add pos (Npos XH)) (N.sub cnt (Npos XH))
    else Inr (pos, cnt)

(** val ph2 : n -> ba -> bool -> nat -> n -> n -> bool * (n * n) **)

let rec ph2 al b want fuel pos cnt =
  match fuel with
  | O -> (false, (pos, cnt))
  | S f ->
    if (&&) (N.leb (Npos (XO (XO (XO XH)))) cnt)
         (negb
           (N.eqb
             (N.modulo (N.add al (N.div pos (Npos (XO (XO (XO XH)))))) (Npos
               (XO (XO (XO XH))))) N0))
    then if byte_skip b want pos
         then ph2 al b want f (N.add pos (Npos (XO (XO (XO XH)))))
                (N.sub cnt (Npos (XO (XO (XO XH)))))
         else (true, (pos, cnt))
    else (false, (pos, cnt))

(** val ph3w : ba -> bool -> nat -> n -> nat * n **)

let rec ph3w b want i pos =
  match i with
  | O -> (O, pos)
  | S i' ->
    if word_skip b want pos
    then ph3w b want i' (N.add pos (Npos (XO (XO (XO (XO (XO (XO XH))))))))
    else (i, pos)

(** val ph3b : ba -> bool -> nat -> n -> nat * n **)

let rec ph3b b want i pos =
  match i with
  | O -> (O, pos)
  | S i' ->
    if byte_skip b want pos
    then ph3b b want i' (N.add pos (Npos (XO (XO (XO XH)))))
    else (i, pos)

(** val ph4 : ba -> bool -> nat -> n -> n option **)

let rec ph4 b want cnt pos =
  match cnt with
  | O -> None
  | S c ->
    if hit b want pos then Some pos else ph4 b want c (N.add pos (Npos XH))

(** val ba_find : n -> ba -> bool -> n -> n -> n option **)

let ba_find al b want a e =
  match ph1 b want (S (S (S (S (S (S (S (S O)))))))) a
          (N.sub (N.add e (Npos XH)) a) with
  | Inl p -> Some p
  | Inr p ->
    let (pos, cnt) = p in
    if N.eqb cnt N0
    then None
    else let (found, p0) =
           ph2 al b want (S (S (S (S (S (S (S (S O)))))))) pos cnt
         in
         let (pos0, cnt0) = p0 in
         let (pos1, cnt1) =
           if found
           then (pos0, cnt0)
           else let mw =
                  N.to_nat
                    (N.div cnt0 (Npos (XO (XO (XO (XO (XO (XO XH))))))))
                in
                let (iw, _) = ph3w b want mw pos0 in
                let adv = N.of_nat (sub mw iw) in
                let cnt1 =
                  N.sub cnt0
                    (N.mul (Npos (XO (XO (XO (XO (XO (XO XH))))))) adv)
                in
                let pos1 =
                  N.add pos0
                    (N.mul (Npos (XO (XO (XO (XO (XO (XO XH))))))) adv)
                in
                let mb = N.to_nat (N.div cnt1 (Npos (XO (XO (XO XH))))) in
                let (ib, _) = ph3b b want mb pos1 in
                let adv0 = N.of_nat (sub mb ib) in
                ((N.add pos1 (N.mul (Npos (XO (XO (XO XH)))) adv0)),
                (N.sub cnt1 (N.mul (Npos (XO (XO (XO XH)))) adv0)))
         in
         ph4 b want (N.to_nat cnt1) pos1

(** val ba_test_clear : ba -> n -> n -> bool **)

let ba_test_clear b start len =
  let start_byte = N.div start (Npos (XO (XO (XO XH)))) in
  let start_bit = N.modulo start (Npos (XO (XO (XO XH)))) in
  let go = fun start_byte0 len_byte len_bit ->
    if (&&) (negb (N.eqb len_bit N0))
         (negb
           (all_clr b
             (N.mul (Npos (XO (XO (XO XH)))) (N.add start_byte0 len_byte))
             (N.to_nat len_bit)))
    then false
    else if (&&) (negb (N.eqb len_bit N0)) (N.eqb len_byte N0)
         then true
         else all_clr b (N.mul (Npos (XO (XO (XO XH)))) start_byte0)
                (N.to_nat (N.mul (Npos (XO (XO (XO XH)))) len_byte))
  in
  if negb (N.eqb start_bit N0)
  then let mark_count =
         if N.ltb len (N.sub (Npos (XO (XO (XO XH)))) start_bit)
         then len
         else N.sub (Npos (XO (XO (XO XH)))) start_bit
       in
       if negb
            (all_clr b
              (N.add (N.mul (Npos (XO (XO (XO XH)))) start_byte) start_bit)
              (N.to_nat mark_count))
       then false
       else if N.leb len (N.sub (Npos (XO (XO (XO XH)))) start_bit)
            then true
            else go (N.add start_byte (Npos XH))
                   (N.div (N.sub len mark_count) (Npos (XO (XO (XO XH)))))
                   (N.modulo (N.sub len mark_count) (Npos (XO (XO (XO XH)))))
  else go start_byte (N.div len (Npos (XO (XO (XO XH)))))
         (N.modulo len (Npos (XO (XO (XO XH)))))

(** val get_bits : ba -> n -> nat -> bool list **)

let rec get_bits b i = function
| O -> []
| S k' -> (tb b i) :: (get_bits b (N.add i (Npos XH)) k')

(** val put_bits : ba -> n -> bool list -> ba **)

let rec put_bits b i = function
| [] -> b
| x :: r ->
  put_bits (if x then N.setbit b i else N.clearbit b i) (N.add i (Npos XH)) r

(** val ba_get : ba -> n -> n -> n -> bool list **)

let ba_get b gs a n0 =
  let pos = N.sub a gs in
  if N.eqb (N.modulo pos (Npos (XO (XO (XO XH))))) N0
  then get_bits b
         (N.mul (Npos (XO (XO (XO XH)))) (N.div pos (Npos (XO (XO (XO XH))))))
         (N.to_nat n0)
  else get_bits b pos (N.to_nat n0)

(** val ba_set : ba -> n -> n -> bool list -> ba **)

let ba_set b gs a bits =
  let pos = N.sub a gs in
  if (&&) (N.eqb (N.modulo pos (Npos (XO (XO (XO XH))))) N0)
       (N.eqb (N.modulo (N.of_nat (length bits)) (Npos (XO (XO (XO XH))))) N0)
  then put_bits b
         (N.mul (Npos (XO (XO (XO XH)))) (N.div pos (Npos (XO (XO (XO XH))))))
         bits
  else put_bits b pos bits

(** val bA : n -> backend **)

let bA al =
  { b_empty = (Obj.magic N0); b_mark = (fun b i -> ((Obj.magic N.setbit b i),
    (tb (Obj.magic b) i))); b_unmark = (fun b i ->
    ((Obj.magic N.clearbit b i), (tb (Obj.magic b) i))); b_test = (fun b i ->
    (b, (tb (Obj.magic b) i))); b_mark_ext = (fun b a n0 ->
    Obj.magic set_loop b a (N.to_nat n0)); b_unmark_ext = (fun b a n0 ->
    Obj.magic clr_loop b a (N.to_nat n0)); b_test_clear =
    (Obj.magic ba_test_clear); b_ffz = (fun b a e ->
    ba_find al (Obj.magic b) false a e); b_ffs = (fun b a e ->
    ba_find al (Obj.magic b) true a e); b_get = (Obj.magic ba_get); b_set =
    (Obj.magic ba_set); b_clear = (fun _ -> Obj.magic N0); b_copy = (fun b ->
    (b, b)) }

(** val copy_bits : backend -> nat -> n -> t -> t -> t **)

let rec copy_bits b n0 i src dst =
  match n0 with
  | O -> dst
  | S k ->
    let (src', r) = b.b_test src i in
    copy_bits b k (N.add i (Npos XH)) src'
      (if r then fst (b.b_mark dst i) else dst)

(** val resize_geom : geom -> n -> n -> geom **)

let resize_geom g ne nre =
  { g_start = g.g_start; g_end = ne; g_real_end = nre; g_cbits = g.g_cbits }

(** val resize_state : backend -> geom -> n -> gstate -> gstate **)

let resize_state b g ne st =
  let keep = N.min g.g_end ne in
  ((copy_bits b (N.to_nat (N.sub (N.add keep (Npos XH)) g.g_start)) N0
     (fst st) b.b_empty), None)

type sop =
| SOp of op
| SResize of n * n

(** val run_seg : backend -> geom -> gstate -> sop list -> res list **)

let rec run_seg b g st = function
| [] -> []
| s :: r ->
  (match s with
   | SOp o -> let (st', x) = gen_step b g st o in x :: (run_seg b g st' r)
   | SResize (ne, nre) ->
     RVoid :: (run_seg b (resize_geom g ne nre) (resize_state b g ne st) r))

(** val run_seg0 : backend -> geom -> sop list -> res list **)

let run_seg0 b g ops =
  run_seg b g (b.b_empty, None) ops

(** val run_rb : geom -> sop list -> res list **)

let run_rb g ops =
  run_seg0 rB g ops

(** val run_ba : n -> geom -> sop list -> res list **)

let run_ba al g ops =
  run_seg0 (bA al) g ops

(** val run_fs : geom -> sop list -> res list **)

let run_fs g ops =
  run_seg0 fSet g ops

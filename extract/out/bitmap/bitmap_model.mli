
type __ = Obj.t

val negb : bool -> bool

type nat =
| O
| S of nat

type ('a, 'b) sum =
| Inl of 'a
| Inr of 'b

val fst : ('a1 * 'a2) -> 'a1

val snd : ('a1 * 'a2) -> 'a2

val length : 'a1 list -> nat

type comparison =
| Eq
| Lt
| Gt

val add : nat -> nat -> nat

val sub : nat -> nat -> nat

val eqb : bool -> bool -> bool

val hd_error : 'a1 list -> 'a1 option

val nth : nat -> 'a1 list -> 'a1 -> 'a1

val fold_left : ('a1 -> 'a2 -> 'a1) -> 'a2 list -> 'a1 -> 'a1

val forallb : ('a1 -> bool) -> 'a1 list -> bool

val firstn : nat -> 'a1 list -> 'a1 list

val repeat : 'a1 -> nat -> 'a1 list

type positive =
| XI of positive
| XO of positive
| XH

type n =
| N0
| Npos of positive

module Pos :
 sig
  type mask =
  | IsNul
  | IsPos of positive
  | IsNeg
 end

module Coq_Pos :
 sig
  val succ : positive -> positive

  val add : positive -> positive -> positive

  val add_carry : positive -> positive -> positive

  val pred_double : positive -> positive

  val pred_N : positive -> n

  type mask = Pos.mask =
  | IsNul
  | IsPos of positive
  | IsNeg

  val succ_double_mask : mask -> mask

  val double_mask : mask -> mask

  val double_pred_mask : positive -> mask

  val sub_mask : positive -> positive -> mask

  val sub_mask_carry : positive -> positive -> mask

  val mul : positive -> positive -> positive

  val iter : ('a1 -> 'a1) -> 'a1 -> positive -> 'a1

  val pow : positive -> positive -> positive

  val compare_cont : comparison -> positive -> positive -> comparison

  val compare : positive -> positive -> comparison

  val eqb : positive -> positive -> bool

  val coq_Nsucc_double : n -> n

  val coq_Ndouble : n -> n

  val coq_lor : positive -> positive -> positive

  val ldiff : positive -> positive -> n

  val shiftl : positive -> n -> positive

  val testbit : positive -> n -> bool

  val iter_op : ('a1 -> 'a1 -> 'a1) -> positive -> 'a1 -> 'a1

  val to_nat : positive -> nat

  val of_succ_nat : nat -> positive
 end

module N :
 sig
  val succ_double : n -> n

  val double : n -> n

  val add : n -> n -> n

  val sub : n -> n -> n

  val mul : n -> n -> n

  val compare : n -> n -> comparison

  val eqb : n -> n -> bool

  val leb : n -> n -> bool

  val ltb : n -> n -> bool

  val min : n -> n -> n

  val div2 : n -> n

  val pow : n -> n -> n

  val pos_div_eucl : positive -> n -> n * n

  val div_eucl : n -> n -> n * n

  val div : n -> n -> n

  val modulo : n -> n -> n

  val coq_lor : n -> n -> n

  val ldiff : n -> n -> n

  val shiftl : n -> n -> n

  val shiftr : n -> n -> n

  val testbit : n -> n -> bool

  val to_nat : n -> nat

  val of_nat : nat -> n

  val setbit : n -> n -> n

  val clearbit : n -> n -> n
 end

type backend = { b_empty : __; b_mark : (__ -> n -> __ * bool);
                 b_unmark : (__ -> n -> __ * bool);
                 b_test : (__ -> n -> __ * bool);
                 b_mark_ext : (__ -> n -> n -> __);
                 b_unmark_ext : (__ -> n -> n -> __);
                 b_test_clear : (__ -> n -> n -> bool);
                 b_ffz : (__ -> n -> n -> n option);
                 b_ffs : (__ -> n -> n -> n option);
                 b_get : (__ -> n -> n -> n -> bool list);
                 b_set : (__ -> n -> n -> bool list -> __);
                 b_clear : (__ -> __); b_copy : (__ -> __ * __) }

type t = __

type geom = { g_start : n; g_end : n; g_real_end : n; g_cbits : n }

type op =
| Mark of n
| Unmark of n
| Test of n
| MarkRange of n * n
| UnmarkRange of n * n
| TestRange of n * n
| FindZero of n * n
| FindSet of n * n
| GetRange of n * n
| SetRange of n * n * bool list
| Clear
| SetPadding
| Snapshot
| Compare

type res =
| RVoid
| RInt of n
| RErr of n
| RPos of n
| RBits of bool list

val eINVAL : n

val eNOENT : n

val nEQ : n

val b2n : bool -> n

val shr : geom -> n -> n

val in_range : geom -> n -> bool

val conv_range : geom -> n -> n -> n * n

val range_ok : geom -> n -> n -> bool

type gstate = t * t option

val cmp_loop : backend -> geom -> nat -> n -> t -> t -> (t * t) * bool

val gen_step : backend -> geom -> gstate -> op -> gstate * res

type fset = n -> bool

val f_rng : n -> n -> n -> bool

val f_scan : fset -> bool -> n -> nat -> n option

val f_all_clear : fset -> n -> nat -> bool

val f_bits : fset -> n -> nat -> bool list

val fSet : backend

type node = { nid : n; ns : n; nc : n }

val nend : node -> n

type rb = { nodes : node list; wc : n option; rc : n option; rn : n option;
            fresh : n }

val rb_empty : rb

val lookup : n -> node list -> node option

val succ_of : n -> node list -> node option

val cursor : n option -> node list -> node option

val inside : node -> n -> bool

val find_cont : n -> node list -> node option

val mem_nodes : node list -> n -> bool

val clear_if : n option -> n -> n option

val free_ids : rb -> n list -> node list -> rb

val rb_search_test : rb -> n -> rb * bool

val rb_test_bit : rb -> n -> rb * bool

val merge_right : n -> n -> node list -> (n * node list) * n list

val ins_nodes :
  n -> n -> n -> node list -> ((node list * n) * n list) * n option

val ins_at : n -> n -> n -> node list -> (node list * n) * n list

val rb_insert_extent : rb -> n -> n -> rb * n

val scan_right : n -> n -> node list -> n -> (node list * n) * n list

type rm_out =
| RmDone of node list * n * n list
| RmSplit of node list * n * n

val rm_nodes : n -> n -> node list -> rm_out

val rb_remove_extent : rb -> n -> n -> rb * n

val tc_scan : n -> n -> node list -> bool

val rb_test_clear : rb -> n -> n -> bool

val rb_ffz : rb -> n -> n -> n option

val first_after : n -> node list -> node option

val rb_ffs : rb -> n -> n -> n option

val paint : node list -> n -> bool list -> n -> bool list

val rb_get : rb -> n -> n -> n -> bool list

val set_runs : rb -> n -> bool list -> n -> n option -> rb

val rb_set : rb -> n -> n -> bool list -> rb

val rb_clear : rb -> rb

val rb_copy : rb -> rb * rb

val rB : backend

type ba = n

val tb : ba -> n -> bool

val bits_from : n -> nat -> n list

val all_clr : ba -> n -> nat -> bool

val set_loop : ba -> n -> nat -> ba

val clr_loop : ba -> n -> nat -> ba

val hit : ba -> bool -> n -> bool

val byte_skip : ba -> bool -> n -> bool

val word_skip : ba -> bool -> n -> bool

val ph1 : ba -> bool -> nat -> n -> n -> (n, n * n) sum

val ph2 : n -> ba -> bool -> nat -> n -> n -> bool * (n * n)

val ph3w : ba -> bool -> nat -> n -> nat * n

val ph3b : ba -> bool -> nat -> n -> nat * n

val ph4 : ba -> bool -> nat -> n -> n option

val ba_find : n -> ba -> bool -> n -> n -> n option

val ba_test_clear : ba -> n -> n -> bool

val get_bits : ba -> n -> nat -> bool list

val put_bits : ba -> n -> bool list -> ba

val ba_get : ba -> n -> n -> n -> bool list

val ba_set : ba -> n -> n -> bool list -> ba

val bA : n -> backend

val copy_bits : backend -> nat -> n -> t -> t -> t

val resize_geom : geom -> n -> n -> geom

val resize_state : backend -> geom -> n -> gstate -> gstate

type sop =
| SOp of op
| SResize of n * n

val run_seg : backend -> geom -> gstate -> sop list -> res list

val run_seg0 : backend -> geom -> sop list -> res list

val run_rb : geom -> sop list -> res list

val run_ba : n -> geom -> sop list -> res list

val run_fs : geom -> sop list -> res list

From E2V Require Import FileIO.FileBuf.
Require Extraction.
Require Import ExtrOcamlBasic.
Extraction Language OCaml.
Extraction "filebuf_model.ml" finit bstep mapped_blocks content.

From E2V Require Import Layout.Layout Resize.ResizeGeom.
Require Extraction.
Require Import ExtrOcamlBasic.
Extraction Language OCaml.
Extraction "resize_model.ml" resize_geom protocol_check.

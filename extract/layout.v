From E2V Require Import Layout.Layout Layout.BackupBgs.
Require Extraction.
Require Import ExtrOcamlBasic.
Extraction Language OCaml.
Extraction "layout_model.ml" bg_has_super super_and_bgd_loc list_backups_n descriptor_block_loc descriptor_block_loc_big list_backups_ss2_n grow_b1_new.

From E2V Require Import IoCache.IoModel.
Require Extraction.
Require Import ExtrOcamlBasic.
Extraction Language OCaml.
Extraction "iocache_model.ml" init step sp_step rd_bytes.

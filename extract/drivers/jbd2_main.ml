(* front end for the extracted JBD2 recovery model (C03/C04) *)
open Jbd2_model

let rec pos_of_int i = if i = 1 then XH else if i land 1 = 0 then XO (pos_of_int (i lsr 1)) else XI (pos_of_int (i lsr 1))
let n_of_int i = if i = 0 then N0 else Npos (pos_of_int i)
let rec int_of_pos = function XH -> 1 | XO p -> 2 * int_of_pos p | XI p -> 2 * int_of_pos p + 1
let int_of_n = function N0 -> 0 | Npos p -> int_of_pos p
let rec nat_of_int i = if i = 0 then O else S (nat_of_int (i - 1))
let unhex s = List.init (String.length s / 2) (fun i -> n_of_int (int_of_string ("0x" ^ String.sub s (2 * i) 2)))
let hex l = String.concat "" (List.map (fun b -> Printf.sprintf "%02x" (int_of_n b)) l)

let () =
  let len = ref 0 and start = ref 0 and seq = ref 0 and async = ref false in
  let blocks = Hashtbl.create 64 and targets = ref [] in
  let split c s = List.filter (fun x -> x <> "") (String.split_on_char c s) in
  (try
    while true do
      let line = input_line stdin in
      let t = Array.of_list (split ' ' (String.trim line)) in
      if Array.length t > 0 then
      match t.(0) with
      | "J" -> len := int_of_string t.(1); start := int_of_string t.(2); seq := int_of_string t.(3);
               async := t.(4) = "1"; Hashtbl.reset blocks; targets := []
      | "B" ->
        let idx = int_of_string t.(1) in
        let b = match t.(2) with
          | "D" -> let tags = if Array.length t > 5 then split ' ' (String.concat " " (Array.to_list (Array.sub t 5 (Array.length t - 5)))) else [] in
                   JDesc (n_of_int (int_of_string t.(3)), t.(4) = "1",
                          List.map (fun s -> match split ':' s with
                                             | [b; e; o] -> { t_blk = n_of_int (int_of_string b); t_escape = e = "1"; t_csum_ok = o = "1" }
                                             | _ -> failwith "tag") tags)
          | "C" -> JCommit (n_of_int (int_of_string t.(3)), t.(4) = "1", n_of_int (int_of_string t.(5)))
          | "R" -> JRevoke (n_of_int (int_of_string t.(3)), t.(4) = "1",
                            if Array.length t > 5 then List.map (fun s -> n_of_int (int_of_string s)) (split ',' t.(5)) else [])
          | "X" -> JData (unhex (if Array.length t > 3 then t.(3) else ""))
          | _ -> JOther in
        Hashtbl.replace blocks idx b
      | "T" -> targets := List.map int_of_string (split ',' t.(1))
      | "RUN" ->
        let j = { j_len = n_of_int !len;
                  j_blk = (fun i -> try Hashtbl.find blocks (int_of_n i) with Not_found -> JOther);
                  j_start = n_of_int !start; j_seq = n_of_int !seq; j_async = !async } in
        let fuel = nat_of_int (4 * !len + 16) in
        let show fs = List.iter (fun b -> print_endline (Printf.sprintf "W %d %s" b (hex (fs (n_of_int b))))) !targets in
        (match recover fuel j (fun _ -> []) with
         | RecOk (fs, ns) -> print_endline (Printf.sprintf "OK %d" (int_of_n ns)); show fs
         | RecErr (fs, ns) -> print_endline (Printf.sprintf "ERR %d" (int_of_n ns)); show fs
         | RecFail -> print_endline "FAIL"
         | RecFuel -> print_endline "FUEL");
        print_endline "END"
      | _ -> ()
    done
  with End_of_file -> ())

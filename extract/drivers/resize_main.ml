(* front end for the extracted resize model (C08):
   G ss ss2 bb0 bb1 dpb rgdt f bpg bs ipg ibpg blocks  -> OK B G db | TOOSMALL | TOOMANY | FUEL
   P <string over E (sb write, error flag set) C (sb write, flag clear) O (other write inside the old extent) N (other write beyond it) F (sync)> -> 1 | 0 *)
open Resize_model
let rec pos_of_int i = if i = 1 then XH else if i land 1 = 0 then XO (pos_of_int (i lsr 1)) else XI (pos_of_int (i lsr 1))
let n_of_int i = if i = 0 then N0 else Npos (pos_of_int i)
let rec int_of_pos = function XH -> 1 | XO p -> 2 * int_of_pos p | XI p -> 2 * int_of_pos p + 1
let int_of_n = function N0 -> 0 | Npos p -> int_of_pos p
let () =
  try while true do
    let t = Array.of_list (List.filter (fun s -> s <> "") (String.split_on_char ' ' (String.trim (input_line stdin)))) in
    if Array.length t > 0 then
    match t.(0) with
    | "G" ->
      let v i = int_of_string t.(i) in
      let s = { sparse_super = v 1 = 1; sparse_super2 = v 2 = 1; backup_bg0 = n_of_int (v 3); backup_bg1 = n_of_int (v 4);
                meta_bg = false; first_meta_bg = N0; desc_per_block = n_of_int (v 5);
                desc_blocks = N0; reserved_gdt = n_of_int (v 6); first_data_block = n_of_int (v 7);
                blocks_per_group = n_of_int (v 8); blocksize = n_of_int (v 9) } in
      (match resize_geom s (n_of_int (v 10)) (n_of_int (v 11)) (n_of_int (v 12)) with
       | ROk (b, g, d) -> Printf.printf "OK %d %d %d\n" (int_of_n b) (int_of_n g) (int_of_n d)
       | RTooSmall -> print_endline "TOOSMALL"
       | RTooManyInodes -> print_endline "TOOMANY"
       | ROutOfFuel -> print_endline "FUEL")
    | "P" ->
      let s = if Array.length t > 1 then t.(1) else "" in
      let l = ref [] in
      for i = String.length s - 1 downto 0 do
        l := (match s.[i] with 'E' -> WSb true | 'C' -> WSb false | 'O' -> WOther true | 'N' -> WOther false | _ -> Sync) :: !l
      done;
      print_endline (if protocol_check !l then "1" else "0")
    | _ -> print_endline "?"
  done with End_of_file -> ()

(* front end for the extracted qcow2 index model (C19):  I <cluster_bits> <blk> <data offset> -> l1 l2 rc_table_index rc_entry *)
open Qcow_model
let rec pos_of_int i = if i = 1 then XH else if i land 1 = 0 then XO (pos_of_int (i lsr 1)) else XI (pos_of_int (i lsr 1))
let n_of_int i = if i = 0 then N0 else Npos (pos_of_int i)
let rec int_of_pos = function XH -> 1 | XO p -> 2 * int_of_pos p | XI p -> 2 * int_of_pos p + 1
let int_of_n = function N0 -> 0 | Npos p -> int_of_pos p
let () =
  try while true do
    let t = Array.of_list (List.filter (fun s -> s <> "") (String.split_on_char ' ' (String.trim (input_line stdin)))) in
    if Array.length t = 4 && t.(0) = "I" then begin
      let cb = n_of_int (int_of_string t.(1)) and b = n_of_int (int_of_string t.(2)) and o = n_of_int (int_of_string t.(3)) in
      Printf.printf "%d %d %d %d\n" (int_of_n (l1_of cb b)) (int_of_n (l2_of cb b)) (int_of_n (rc_table_index cb o)) (int_of_n (rc_entry cb o))
    end else if Array.length t >= 4 && t.(0) = "WR" then begin
      (* WR <l2 entries per table> <cache capacity> <offset of the first table> <blk:data:next> ...
         -> "L1 idx:off ..." and one "T off idx:data ..." per table written, the tables in ascending offset order *)
      let n i = n_of_int (int_of_string i) in
      let items = List.map (fun x -> match String.split_on_char ':' x with
          | [b; d; nx] -> ((n b, n d), n nx) | _ -> failwith "bad item") (Array.to_list (Array.sub t 4 (Array.length t - 4))) in
      let rec nat_of_int i = if i <= 0 then O else S (nat_of_int (i - 1)) in
      let img = write_all (n t.(1)) (nat_of_int (int_of_string t.(2))) (n t.(3)) items in
      let pr l = String.concat " " (List.map (fun (a, b) -> Printf.sprintf "%d:%d" (int_of_n a) (int_of_n b)) (List.sort compare (List.map (fun (a, b) -> (int_of_n a, int_of_n b)) l |> List.map (fun (a, b) -> (n_of_int a, n_of_int b))))) in
      let srt l = List.sort (fun (a, _) (b, _) -> compare (int_of_n a) (int_of_n b)) l in
      Printf.printf "L1 %s\n" (String.concat " " (List.map (fun (a, b) -> Printf.sprintf "%d:%d" (int_of_n a) (int_of_n b)) (srt img.w_l1)));
      List.iter (fun (off, d) -> Printf.printf "T %d %s\n" (int_of_n off) (String.concat " " (List.map (fun (a, b) -> Printf.sprintf "%d:%d" (int_of_n a) (int_of_n b)) (srt d)))) (srt img.w_file);
      ignore pr;
      print_endline "END"
    end else print_endline "?"
  done with End_of_file -> ()

(* front end for the extracted qcow2 index model (C19):  I <cluster_bits> <blk> <data offset> -> l1 l2 rc_table_index rc_entry *)
open Qcow_model
let rec pos_of_int i = if i = 1 then XH else if i land 1 = 0 then XO (pos_of_int (i lsr 1)) else XI (pos_of_int (i lsr 1))
let n_of_int i = if i = 0 then N0 else Npos (pos_of_int i)
let rec int_of_pos = function XH -> 1 | XO p -> 2 * int_of_pos p | XI p -> 2 * int_of_pos p + 1
let int_of_n = function N0 -> 0 | Npos p -> int_of_pos p
let () =
  try while true do
    let t = Array.of_list (List.filter (fun s -> s <> "") (String.split_on_char ' ' (String.trim (input_line stdin)))) in
    if Array.length t = 4 && t.(0) = "I" then begin
      let cb = n_of_int (int_of_string t.(1)) and b = n_of_int (int_of_string t.(2)) and o = n_of_int (int_of_string t.(3)) in
      Printf.printf "%d %d %d %d\n" (int_of_n (l1_of cb b)) (int_of_n (l2_of cb b)) (int_of_n (rc_table_index cb o)) (int_of_n (rc_entry cb o))
    end else print_endline "?"
  done with End_of_file -> ()

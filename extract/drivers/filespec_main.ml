(* front end for the extracted file reference (C09):
   N <bs>            start (all files empty)
   W <f> <pos> <hex> | R <f> <pos> <n> -> hex | Z <f> <size> | P <f> <start> <end> | D <f> -> whole content hex *)
open Filespec_model
let rec nat_of_int i = if i <= 0 then O else S (nat_of_int (i - 1))
let rec int_of_nat = function O -> 0 | S n -> 1 + int_of_nat n
let small = Array.init 256 nat_of_int
let bytes_of_hex h = List.init (String.length h / 2) (fun i -> small.(int_of_string ("0x" ^ String.sub h (2 * i) 2)))
let hex_of_bytes l = String.concat "" (List.map (fun b -> Printf.sprintf "%02x" (int_of_nat b)) l)
let () =
  let bs = ref (nat_of_int 1024) in
  let files = Hashtbl.create 8 in
  let get f = try Hashtbl.find files f with Not_found -> [] in
  try while true do
    let t = Array.of_list (List.filter (fun s -> s <> "") (String.split_on_char ' ' (String.trim (input_line stdin)))) in
    if Array.length t > 0 then
    match t.(0) with
    | "N" -> bs := nat_of_int (int_of_string t.(1)); Hashtbl.reset files; print_endline "N"
    | "W" -> let (l, _) = f_step !bs (get t.(1)) (FWrite (nat_of_int (int_of_string t.(2)), bytes_of_hex (if Array.length t > 3 then t.(3) else ""))) in
             Hashtbl.replace files t.(1) l; print_endline "W"
    | "R" -> let (_, r) = f_step !bs (get t.(1)) (FRead (nat_of_int (int_of_string t.(2)), nat_of_int (int_of_string t.(3)))) in
             print_endline ("R " ^ hex_of_bytes r)
    | "Z" -> let (l, _) = f_step !bs (get t.(1)) (FSetSize (nat_of_int (int_of_string t.(2)))) in Hashtbl.replace files t.(1) l; print_endline "Z"
    | "P" -> let (l, _) = f_step !bs (get t.(1)) (FPunch (nat_of_int (int_of_string t.(2)), nat_of_int (int_of_string t.(3)))) in
             Hashtbl.replace files t.(1) l; print_endline "P"
    | "D" -> print_endline ("D " ^ hex_of_bytes (get t.(1)))
    | _ -> print_endline "?"
  done with End_of_file -> ()

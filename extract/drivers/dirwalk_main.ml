(* front end for the extracted directory walk and attribute value check (C06):  W <buflen> <hex block> -> OK n | CORRUPT | OOB | FUEL *)
open Dirwalk_model
let rec pos_of_int i = if i = 1 then XH else if i land 1 = 0 then XO (pos_of_int (i lsr 1)) else XI (pos_of_int (i lsr 1))
let n_of_int i = if i = 0 then N0 else Npos (pos_of_int i)
let rec int_of_nat = function O -> 0 | S n -> 1 + int_of_nat n
let small = Array.init 256 n_of_int
let () =
  try while true do
    let t = Array.of_list (List.filter (fun s -> s <> "") (String.split_on_char ' ' (String.trim (input_line stdin)))) in
    if Array.length t = 3 && t.(0) = "W" then begin
      let h = t.(2) in
      let l = List.init (String.length h / 2) (fun i -> small.(int_of_string ("0x" ^ String.sub h (2 * i) 2))) in
      match dir_block_walk l (n_of_int (int_of_string t.(1))) with
      | WOk n -> Printf.printf "OK %d\n" (int_of_nat n)
      | WCorrupt -> print_endline "CORRUPT"
      | WOOB -> print_endline "OOB"
      | WFuel -> print_endline "FUEL"
    end else if Array.length t = 4 && t.(0) = "E" then
      (* E <block size> <e_value_offs> <e_value_size> -> 1 accepted | 0 PR_1_EA_BAD_VALUE *)
      print_endline (if ea_value_ok (n_of_int (int_of_string t.(1))) (n_of_int (int_of_string t.(2))) (n_of_int (int_of_string t.(3))) then "1" else "0")
    else if Array.length t = 3 && t.(0) = "RS" then
      (* RS <readonly 0|1> <k missing inode tables> -> number of restarts of the repaired code | NONE *)
      let rec nat_of_int i = if i = 0 then O else S (nat_of_int (i - 1)) in
      (match restarts true (t.(1) = "1") (nat_of_int (int_of_string t.(2))) with
       | Some n -> Printf.printf "%d\n" (int_of_nat n)
       | None -> print_endline "NONE")
    else if Array.length t = 4 && t.(0) = "IL" then begin
      (* IL <inode table blocks per group> <bg_itable_unused> <inodes per block> -> table blocks that go into the image *)
      let rec int_of_pos = function XH -> 1 | XO p -> 2 * int_of_pos p | XI p -> 2 * int_of_pos p + 1 in
      let int_of_n = function N0 -> 0 | Npos p -> int_of_pos p in
      Printf.printf "%d\n" (int_of_n (itable_len_new (n_of_int (int_of_string t.(1))) (n_of_int (int_of_string t.(2))) (n_of_int (int_of_string t.(3)))))
    end
    else if Array.length t = 4 && t.(0) = "MG" then begin
      (* MG <s_inodes_count> <s_free_inodes_count> <inodes per group> -> groups the inodes in use need | INCONSISTENT *)
      let rec int_of_pos = function XH -> 1 | XO p -> 2 * int_of_pos p | XI p -> 2 * int_of_pos p + 1 in
      let int_of_n = function N0 -> 0 | Npos p -> int_of_pos p in
      (match min_groups_new (n_of_int (int_of_string t.(1))) (n_of_int (int_of_string t.(2))) (n_of_int (int_of_string t.(3))) with
       | Some g -> Printf.printf "%d\n" (int_of_n g)
       | None -> print_endline "INCONSISTENT")
    end
    else print_endline "?"
  done with End_of_file -> ()

(* front end for the extracted ext2_file_t buffer model (C09):
   N <bs> | W <f> <pos> <hex> | Z <f> <curpos> <size> | P <f> <a> <b> | FL <f> | RO <f> | M <f> <n> -> mapped blocks | D <f> -> content hex *)
open Filebuf_model
let rec nat_of_int i = if i <= 0 then O else S (nat_of_int (i - 1))
let rec int_of_nat = function O -> 0 | S n -> 1 + int_of_nat n
let small = Array.init 256 nat_of_int
let bytes_of_hex h = List.init (String.length h / 2) (fun i -> small.(int_of_string ("0x" ^ String.sub h (2 * i) 2)))
let () =
  let bs = ref 1024 in
  let files = Hashtbl.create 8 in
  let get f = try Hashtbl.find files f with Not_found -> finit (nat_of_int !bs) in
  let put f s = Hashtbl.replace files f s in
  try while true do
    let t = Array.of_list (List.filter (fun s -> s <> "") (String.split_on_char ' ' (String.trim (input_line stdin)))) in
    if Array.length t > 0 then
    match t.(0) with
    | "N" -> bs := int_of_string t.(1); Hashtbl.reset files; print_endline "N"
    | "W" -> put t.(1) (bstep (get t.(1)) (BWrite (nat_of_int (int_of_string t.(2)), bytes_of_hex (if Array.length t > 3 then t.(3) else "")))); print_endline "W"
    | "Z" -> put t.(1) (bstep (get t.(1)) (BSetSize (nat_of_int (int_of_string t.(2)), nat_of_int (int_of_string t.(3))))); print_endline "Z"
    | "P" -> put t.(1) (bstep (get t.(1)) (BPunch (nat_of_int (int_of_string t.(2)), nat_of_int (int_of_string t.(3))))); print_endline "P"
    | "FL" -> put t.(1) (bstep (get t.(1)) BFlush); print_endline "FL"
    | "RO" -> put t.(1) (bstep (get t.(1)) BReopen); print_endline "RO"
    | "M" -> print_endline ("M " ^ String.concat " " (List.map (fun x -> string_of_int (int_of_nat x)) (mapped_blocks (get t.(1)) (nat_of_int (int_of_string t.(2))))))
    | "D" -> print_endline ("D " ^ String.concat "" (List.map (fun b -> Printf.sprintf "%02x" (int_of_nat b)) (content (get t.(1)))))
    | _ -> print_endline "?"
  done with End_of_file -> ()

(* front end for the extracted backup-layout model (C20/C07) *)
open Layout_model
let rec pos_of_int i = if i = 1 then XH else if i land 1 = 0 then XO (pos_of_int (i lsr 1)) else XI (pos_of_int (i lsr 1))
let n_of_int i = if i = 0 then N0 else Npos (pos_of_int i)
let rec int_of_pos = function XH -> 1 | XO p -> 2 * int_of_pos p | XI p -> 2 * int_of_pos p + 1
let int_of_n = function N0 -> 0 | Npos p -> int_of_pos p
let rec nat_of_int i = if i = 0 then O else S (nat_of_int (i - 1))
let () =
  try while true do
    let t = Array.of_list (List.filter (fun s -> s <> "") (String.split_on_char ' ' (String.trim (input_line stdin)))) in
    if Array.length t > 0 then
    match t.(0) with
    | "S" ->
      let v i = int_of_string t.(i) in
      let dsize = v 7 and bs = v 12 in
      let s = { sparse_super = v 1 = 1; sparse_super2 = v 2 = 1; backup_bg0 = n_of_int (v 3); backup_bg1 = n_of_int (v 4);
                meta_bg = v 5 = 1; first_meta_bg = n_of_int (v 6); desc_per_block = n_of_int (bs / dsize);
                desc_blocks = n_of_int (v 8); reserved_gdt = n_of_int (v 9); first_data_block = n_of_int (v 10);
                blocks_per_group = n_of_int (v 11); blocksize = n_of_int bs } in
      for g = 0 to v 13 - 1 do
        let (((sb, o), n), u) = super_and_bgd_loc s (n_of_int g) in
        Printf.printf "%d %d %d %d %d %d\n" g (if bg_has_super s (n_of_int g) then 1 else 0) (int_of_n sb) (int_of_n o) (int_of_n n) (int_of_n u)
      done;
      let fdb = v 10 and bpg = v 11 in
      let bc = n_of_int (fdb + v 13 * bpg) in
      (* 14th field, optional: 1 = cluster ratio above 1 (bigalloc) *)
      let big = Array.length t > 14 && v 14 = 1 in
      for i = 0 to v 8 - 1 do
        Printf.printf "D %d %d %d\n" i (int_of_n (descriptor_block_loc_big big s bc (n_of_int fdb) (n_of_int i)))
          (int_of_n (descriptor_block_loc_big big s bc (n_of_int (fdb + bpg)) (n_of_int i)))
      done;
      print_endline "END"
    | "L" ->
      List.iter (fun x -> Printf.printf "%d\n" (int_of_n x))
        (list_backups_n (nat_of_int (int_of_string t.(1))) ((n_of_int 1, n_of_int 5), n_of_int 7));
      print_endline "END"
    | "L2" ->
      List.iter (fun x -> Printf.printf "%d\n" (int_of_n x))
        (list_backups_ss2_n (nat_of_int (int_of_string t.(4))) (n_of_int (int_of_string t.(1))) (n_of_int (int_of_string t.(2))) (n_of_int (int_of_string t.(3))) (n_of_int 1));
      print_endline "END"
    | "BG" ->
      (* BG <old groups> <new groups> <s_backup_bgs[1]>  -> s_backup_bgs[1] after resize2fs has grown the file system *)
      Printf.printf "%d\n" (int_of_n (grow_b1_new (n_of_int (int_of_string t.(1))) (n_of_int (int_of_string t.(2))) (n_of_int (int_of_string t.(3)))));
      print_endline "END"
    | _ -> ()
  done with End_of_file -> ()

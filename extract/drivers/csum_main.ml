(* front end for the extracted checksum definitions (C14): one request per line *)
open Csum_model

let rec pos_of_int i = if i = 1 then XH else if i land 1 = 0 then XO (pos_of_int (i lsr 1)) else XI (pos_of_int (i lsr 1))
let n_of_int i = if i = 0 then N0 else Npos (pos_of_int i)
let rec int_of_pos = function XH -> 1 | XO p -> 2 * int_of_pos p | XI p -> 2 * int_of_pos p + 1
let int_of_n = function N0 -> 0 | Npos p -> int_of_pos p
let rec nat_of_int i = if i = 0 then O else S (nat_of_int (i - 1))
let unhex s = List.init (String.length s / 2) (fun i -> n_of_int (int_of_string ("0x" ^ String.sub s (2 * i) 2)))

let () =
  try
    while true do
      let line = input_line stdin in
      let t = Array.of_list (List.filter (fun s -> s <> "") (String.split_on_char ' ' (String.trim line))) in
      let n i = n_of_int (int_of_string t.(i)) and h i = if Array.length t > i then unhex t.(i) else [] in
      let r = match t.(0) with
        | "crc32c" -> crc32c_spec (n 1) (h 2)
        | "crc16" -> crc16_spec (n 1) (h 2)
        | "crc32be" -> crc32_be_spec (n 1) (h 2)
        | "seed" -> seed_of_uuid (h 1)
        | "sb" -> sb_csum (h 1)
        | "gd" -> gd_csum (n 1) (n 2) (h 3)
        | "gd16" -> gd_crc16 (h 1) (n 2) (h 3)
        | "bitmap" -> bitmap_csum (n 1) (h 2)
        | "inode" -> inode_csum (n 1) (n 2) (h 4) (t.(3) = "1")
        | "dirent" -> dirent_csum (n 1) (n 2) (n 3) (h 4)
        | "dx" -> dx_csum (n 1) (n 2) (n 3) (h 7) (nat_of_int (int_of_string t.(4))) (nat_of_int (int_of_string t.(5))) (nat_of_int (int_of_string t.(6)))
        | "extent" -> extent_csum (n 1) (n 2) (n 3) (h 5) (nat_of_int (int_of_string t.(4)))
        | "xattr" -> xattr_csum (n 1) (n 2) (h 3)
        | "mmp" -> mmp_csum (n 1) (h 2)
        | "jsb" -> jsb_csum (h 1)
        | _ -> N0 in
      print_endline (string_of_int (int_of_n r))
    done
  with End_of_file -> ()

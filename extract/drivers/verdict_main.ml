(* front end for the extracted verdict model (C01/C02): one run per line:
   <mode n|y|p> <direct2 0|1> <changed 0|1> | <phase-1 codes> | <phase-2 codes>   -> exit status bits decided by the valid flag *)
open Verdict_model
let rec pos_of_int i = if i = 1 then XH else if i land 1 = 0 then XO (pos_of_int (i lsr 1)) else XI (pos_of_int (i lsr 1))
let n_of_int i = if i = 0 then N0 else Npos (pos_of_int i)
let rec int_of_pos = function XH -> 1 | XO p -> 2 * int_of_pos p | XI p -> 2 * int_of_pos p + 1
let int_of_n = function N0 -> 0 | Npos p -> int_of_pos p
let () =
  try while true do
    let line = input_line stdin in
    try match String.split_on_char '|' line with
    | [h; a; b] ->
      let hs = List.filter (fun s -> s <> "") (String.split_on_char ' ' h) in
      let codes s = List.map (fun x -> match String.split_on_char ':' x with
                                       | [c; "y"] -> (n_of_int (int_of_string c), Some true)
                                       | [c; "n"] -> (n_of_int (int_of_string c), Some false)
                                       | c :: _ -> (n_of_int (int_of_string c), None)
                                       | [] -> (N0, None))
                      (List.filter (fun s -> s <> "") (String.split_on_char ' ' s)) in
      let m = match List.nth hs 0 with "n" -> ModeNo | "y" -> ModeYes | _ -> ModePreen in
      print_endline (string_of_int (int_of_n (exit_status m (codes a) (codes b) (List.nth hs 1 = "1") (List.nth hs 2 = "1"))))
    | _ -> print_endline "?"
    with Stack_overflow -> print_endline "?"
  done with End_of_file -> ()

(* front end for the extracted xattr packing model (C15):
   P <storage size> <nlen:vlen:ea> ...   -> "F<0|1> | eo:vo:vs ... | ef endf" *)
open Xattr_model
let rec pos_of_int i = if i = 1 then XH else if i land 1 = 0 then XO (pos_of_int (i lsr 1)) else XI (pos_of_int (i lsr 1))
let n_of_int i = if i = 0 then N0 else Npos (pos_of_int i)
let rec int_of_pos = function XH -> 1 | XO p -> 2 * int_of_pos p | XI p -> 2 * int_of_pos p + 1
let int_of_n = function N0 -> 0 | Npos p -> int_of_pos p
(* key = <index>:<hex name> *)
let key x = match String.split_on_char ':' x with
  | [i; h] -> { kidx = n_of_int (int_of_string i); kname = List.init (String.length h / 2) (fun j -> n_of_int (int_of_string ("0x" ^ String.sub h (2 * j) 2))) }
  | _ -> failwith "bad key"
let show_key k = Printf.sprintf "%d:%s" (int_of_n k.kidx) (String.concat "" (List.map (fun b -> Printf.sprintf "%02x" (int_of_n b)) k.kname))
let () =
  try while true do
    let t = List.filter (fun s -> s <> "") (String.split_on_char ' ' (String.trim (input_line stdin))) in
    match t with
    | "P" :: size :: items ->
      let l = List.map (fun x -> match String.split_on_char ':' x with
          | [a; b; c] -> { nlen = n_of_int (int_of_string a); vlen = n_of_int (int_of_string b); ea_ino = c = "1" }
          | _ -> failwith "bad item") items in
      let sz = n_of_int (int_of_string size) in
      let ((ps, ef), endf) = place l N0 sz in
      Printf.printf "F%d | %s | %d %d\n" (if fits l sz then 1 else 0)
        (String.concat " " (List.map (fun ((eo, vo), vs) -> Printf.sprintf "%d:%d:%d" (int_of_n eo) (int_of_n vo) (int_of_n vs)) ps))
        (int_of_n ef) (int_of_n endf)
    | "S" :: items -> Printf.printf "S%d\n" (if sortedb (List.map key items) then 1 else 0)
    | "I" :: k :: items -> print_endline (String.concat " " (List.map show_key (insert_key (List.map key items) (key k))))
    | "L" :: k :: items -> Printf.printf "L%d\n" (if sorted_lookup (List.map key items) (key k) then 1 else 0)
    | "X" :: icap :: bcap :: feat :: emin :: rest ->
      (* X <ib_cap> <blk_cap> <ea_feat> <ea_min> | in-inode attrs | block attrs | S key vid vlen   or   R key
         attr = index:hexname:vid:vlen:ea *)
      let attr x = match String.split_on_char ':' x with
        | [i; h; v; l; e] -> { akey = key (i ^ ":" ^ h); avid = n_of_int (int_of_string v); avlen = n_of_int (int_of_string l); aea = e = "1" }
        | _ -> failwith "bad attr" in
      let show_attr a = Printf.sprintf "%s:%d:%d:%d" (show_key a.akey) (int_of_n a.avid) (int_of_n a.avlen) (if a.aea then 1 else 0) in
      let rec split acc cur = function
        | [] -> List.rev (List.rev cur :: acc)
        | "|" :: r -> split (List.rev cur :: acc) [] r
        | x :: r -> split acc (x :: cur) r in
      (match split [] [] rest with
       | [_; ibl; bll; op] ->
         let c = { ib_cap = n_of_int (int_of_string icap); blk_cap = n_of_int (int_of_string bcap); ea_feat = feat = "1"; ea_min = n_of_int (int_of_string emin) } in
         let s = { ib = List.map attr ibl; bl = List.map attr bll } in
         let show_state s = Printf.sprintf "OK | %s | %s" (String.concat " " (List.map show_attr s.ib)) (String.concat " " (List.map show_attr s.bl)) in
         (match op with
          | ["S"; k; vid; vl] ->
            (match xset c s (key k) (n_of_int (int_of_string vid)) (n_of_int (int_of_string vl)) with
             | ROk s' -> print_endline (show_state s')
             | RNoSpace -> print_endline "NOSPACE")
          | ["R"; k] -> print_endline (show_state (xremove s (key k)))
          | _ -> print_endline "?")
       | _ -> print_endline "?")
    | _ -> print_endline "?"
  done with End_of_file -> ()

(* front end for the extracted copy loop (C18):  M <bs> <start> <hex bytes>  -> mapped block numbers *)
open Copychunk_model
let rec pos_of_int i = if i = 1 then XH else if i land 1 = 0 then XO (pos_of_int (i lsr 1)) else XI (pos_of_int (i lsr 1))
let n_of_int i = if i = 0 then N0 else Npos (pos_of_int i)
let rec int_of_pos = function XH -> 1 | XO p -> 2 * int_of_pos p | XI p -> 2 * int_of_pos p + 1
let int_of_n = function N0 -> 0 | Npos p -> int_of_pos p
let rec nat_of_int i = if i = 0 then O else S (nat_of_int (i - 1))
let rec pos_of_int64 i = if i = 1L then XH else if Int64.logand i 1L = 0L then XO (pos_of_int64 (Int64.shift_right_logical i 1)) else XI (pos_of_int64 (Int64.shift_right_logical i 1))
let n_of_int64 i = if i = 0L then N0 else Npos (pos_of_int64 i)
let rec int64_of_pos = function XH -> 1L | XO p -> Int64.mul 2L (int64_of_pos p) | XI p -> Int64.add (Int64.mul 2L (int64_of_pos p)) 1L
let int64_of_n = function N0 -> 0L | Npos p -> int64_of_pos p
let () =
  try while true do
    let t = Array.of_list (List.filter (fun s -> s <> "") (String.split_on_char ' ' (String.trim (input_line stdin)))) in
    if Array.length t >= 3 && t.(0) = "M" then begin
      let h = if Array.length t > 3 then t.(3) else "" in
      let l = ref [] in
      for i = String.length h / 2 - 1 downto 0 do l := n_of_int (int_of_string ("0x" ^ String.sub h (2 * i) 2)) :: !l done;
      let r = mapped_blocks (nat_of_int (int_of_string t.(1))) (n_of_int (int_of_string t.(2))) !l in
      print_endline (String.concat " " (List.map (fun x -> string_of_int (int_of_n x)) r))
    end else if Array.length t = 4 && t.(0) = "A" then
      (* A <block size> <data> <hole>  -> aligned start and end of the extent *)
      Printf.printf "%s %s\n" (Int64.to_string (int64_of_n (data_blk (n_of_int64 (Int64.of_string t.(1))) (n_of_int64 (Int64.of_string t.(2))))))
        (Int64.to_string (int64_of_n (hole_blk (n_of_int64 (Int64.of_string t.(1))) (n_of_int64 (Int64.of_string t.(3))))))
    else print_endline "?"
  done with End_of_file -> ()

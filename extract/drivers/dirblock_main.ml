(* front end for the extracted directory-block model (C10):
   L <payload> <ino> <namehex> | <ino:rl:namehex> ...   -> records or NONE
   U <namehex> | <ino:rl:namehex> ...                    -> records or NONE *)
open Dirblock_model
let rec pos_of_int i = if i = 1 then XH else if i land 1 = 0 then XO (pos_of_int (i lsr 1)) else XI (pos_of_int (i lsr 1))
let n_of_int i = if i = 0 then N0 else Npos (pos_of_int i)
let rec int_of_pos = function XH -> 1 | XO p -> 2 * int_of_pos p | XI p -> 2 * int_of_pos p + 1
let int_of_n = function N0 -> 0 | Npos p -> int_of_pos p
let bytes_of_hex h = List.init (String.length h / 2) (fun i -> n_of_int (int_of_string ("0x" ^ String.sub h (2 * i) 2)))
let hex_of_bytes l = String.concat "" (List.map (fun b -> Printf.sprintf "%02x" (int_of_n b)) l)
let parse_ent x = match String.split_on_char ':' x with
  | [a; b; c] -> { e_ino = n_of_int (int_of_string a); e_rl = n_of_int (int_of_string b); e_name = bytes_of_hex c }
  | [a; b] -> { e_ino = n_of_int (int_of_string a); e_rl = n_of_int (int_of_string b); e_name = [] }
  | _ -> failwith "bad record"
let show = function
  | None -> "NONE"
  | Some l -> String.concat " " (List.map (fun e -> Printf.sprintf "%d:%d:%s" (int_of_n e.e_ino) (int_of_n e.e_rl) (hex_of_bytes e.e_name)) l)
let words s = List.filter (fun s -> s <> "") (String.split_on_char ' ' s)
let () =
  try while true do
    let line = input_line stdin in
    match String.split_on_char '|' line with
    | [h; b] ->
      let ents = List.map parse_ent (words b) in
      (match words h with
       | ["L"; p; i; n] -> print_endline (show (link_block (n_of_int (int_of_string p)) (n_of_int (int_of_string i)) (bytes_of_hex n) ents))
       | ["U"; n] -> print_endline (show (unlink_block (bytes_of_hex n) ents))
       | _ -> print_endline "?")
    | h :: root :: nodes when (match words h with "DX" :: _ -> true | _ -> false) ->
      (* DX <hash> | hash:blk ... (root entries, entry 0 first) | blk hash:blk ... (one group per interior node) ...  -> leaf block *)
      let pair x = match String.split_on_char ':' x with [a; b] -> (n_of_int (int_of_string a), n_of_int (int_of_string b)) | _ -> failwith "bad pair" in
      let hv = (match words h with [_; x] -> n_of_int (int_of_string x) | _ -> failwith "bad DX") in
      let nd = List.filter_map (fun g -> match words g with [] -> None | b :: es -> Some (n_of_int (int_of_string b), List.map pair es)) nodes in
      Printf.printf "%d\n" (int_of_n (dx_leaf (List.map pair (words root)) nd hv))
    | [h] when (match words h with "NL" :: _ -> true | _ -> false) ->
      (* NL <dir_nlink 0|1> <count>  -> the parent's link count after ext2fs_mkdir, or EMLINK *)
      (match words h with
       | [_; f; n] -> (match mkdir_parent (f = "1") (n_of_int (int_of_string n)) with
                       | Some c -> Printf.printf "%d\n" (int_of_n c)
                       | None -> print_endline "EMLINK")
       | _ -> print_endline "?")
    | _ -> print_endline "?"
  done with End_of_file -> ()

(* line-protocol front end for the extracted unix_io cache model (C17) *)
open Iocache_model

let rec pos_of_int i = if i = 1 then XH else if i land 1 = 0 then XO (pos_of_int (i lsr 1)) else XI (pos_of_int (i lsr 1))
let n_of_int i = if i = 0 then N0 else Npos (pos_of_int i)
let rec int_of_pos = function XH -> 1 | XO p -> 2 * int_of_pos p | XI p -> 2 * int_of_pos p + 1
let int_of_n = function N0 -> 0 | Npos p -> int_of_pos p
let rec nat_of_int i = if i = 0 then O else S (nat_of_int (i - 1))

let unhex s = List.init (String.length s / 2) (fun i -> n_of_int (int_of_string ("0x" ^ String.sub s (2 * i) 2)))
let hex l = String.concat "" (List.map (fun b -> Printf.sprintf "%02x" (int_of_n b)) l)

let () =
  let spec = Array.length Sys.argv > 1 && Sys.argv.(1) = "spec" in
  let st = ref None and sp = ref None and size = ref 0 in
  (try
    while true do
      let line = input_line stdin in
      let toks = List.filter (fun s -> s <> "") (String.split_on_char ' ' (String.trim line)) in
      let n i = n_of_int (int_of_string (List.nth toks i)) in
      let do_op o =
        if spec then begin
          match !sp with
          | Some (b, d) ->
            let ((b', d'), r) = sp_step b d o in
            sp := Some (b', d');
            (match r with RBytes x -> print_endline (hex x) | ROk -> print_endline "OK")
          | None -> ()
        end else begin
          match !st with
          | Some s ->
            let (s', r) = step s o in
            st := Some s';
            (match r with RBytes x -> print_endline (hex x) | ROk -> print_endline "OK")
          | None -> ()
        end in
      match toks with
      | [] -> ()
      | "N" :: _ :: b :: nb :: _ ->
        let bsz = int_of_string b and k = int_of_string nb in
        size := bsz * k;
        let tbl = Array.init !size (fun i -> n_of_int ((i * 7 + 3) mod 251)) in
        let d = fun o -> let i = int_of_n o in if i < Array.length tbl then tbl.(i) else N0 in
        st := Some (init (n_of_int bsz) (nat_of_int 8) d);
        sp := Some (n_of_int bsz, d);
        print_endline "N"
      | "R" :: _ -> do_op (Rd (n 1, n 2))
      | "RB" :: _ -> do_op (RdB (n 1, n 2))
      | "W" :: _ -> do_op (Wr (n 1, n 2, unhex (List.nth toks 3)))
      | "WB" :: _ -> do_op (WrB (n 1, unhex (List.nth toks 2)))
      | "WY" :: _ -> do_op (WrByte (n 1, unhex (List.nth toks 2)))
      | "Z" :: _ -> do_op (Zero (n 1, n 2))
      | "SB" :: _ -> do_op (SetBlk (n 1))
      | "F" :: _ -> do_op Flush
      | "COFF" :: _ -> do_op CacheOff
      | "CON" :: _ -> do_op CacheOn
      | "WT" :: _ -> do_op (WThru (List.nth toks 1 <> "0"))
      | "C" :: _ ->
        let d = if spec then (match !sp with Some (_, d) -> d | None -> fun _ -> N0)
                else (match !st with
                      | Some s -> let (s', _) = step s Flush in s'.dsk
                      | None -> fun _ -> N0) in
        print_endline ("D OK 0 0 " ^ hex (rd_bytes d N0 (nat_of_int !size)))
      | _ -> print_endline "?"
    done
  with End_of_file -> ())

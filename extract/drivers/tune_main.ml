(* front end for the extracted feature-edit model (C11):
   E c i r | <+|-><word>:<mask> ...   -> OK c i r | REFUSED *)
open Tune_model
let rec pos_of_int i = if i = 1 then XH else if i land 1 = 0 then XO (pos_of_int (i lsr 1)) else XI (pos_of_int (i lsr 1))
let n_of_int i = if i = 0 then N0 else Npos (pos_of_int i)
let rec int_of_pos = function XH -> 1 | XO p -> 2 * int_of_pos p | XI p -> 2 * int_of_pos p + 1
let int_of_n = function N0 -> 0 | Npos p -> int_of_pos p
let rec nat_of_int i = if i = 0 then O else S (nat_of_int (i - 1))
let () =
  try while true do
    let line = input_line stdin in
    match String.split_on_char '|' line with
    | [h; e] ->
      let hs = List.filter (fun s -> s <> "") (String.split_on_char ' ' h) in
      let cur = List.map (fun x -> n_of_int (int_of_string x)) (List.tl hs) in
      let es = List.map (fun x ->
          let neg = x.[0] = '-' in
          match String.split_on_char ':' (String.sub x 1 (String.length x - 1)) with
          | [w; m] -> if neg then EClear (nat_of_int (int_of_string w), n_of_int (int_of_string m))
                      else ESet (nat_of_int (int_of_string w), n_of_int (int_of_string m))
          | _ -> failwith "bad edit")
          (List.filter (fun s -> s <> "") (String.split_on_char ' ' e)) in
      (match tune2fs_edit cur es with
       | Some l -> print_endline ("OK " ^ String.concat " " (List.map (fun x -> string_of_int (int_of_n x)) l))
       | None -> print_endline "REFUSED")
    | [m] when (match List.filter (fun s -> s <> "") (String.split_on_char ' ' m) with "M" :: _ -> true | _ -> false) ->
      (* M <current s_default_mount_opts> <0 set | 1 negate> <mask>  -> new value *)
      (match List.filter (fun s -> s <> "") (String.split_on_char ' ' m) with
       | [_; c; ng; mk] -> print_endline (string_of_int (int_of_n (mnt_step (n_of_int (int_of_string c)) (ng = "1") (n_of_int (int_of_string mk)))))
       | _ -> print_endline "?")
    | _ -> print_endline "?"
  done with End_of_file -> ()

(* front end for the extracted ext2fs_initialize geometry model (C07); same line format as harness/h_init.c *)
open Initgeom_model
let rec pos_of_int i = if i = 1 then XH else if i land 1 = 0 then XO (pos_of_int (i lsr 1)) else XI (pos_of_int (i lsr 1))
let n_of_int i = if i = 0 then N0 else Npos (pos_of_int i)
let rec int_of_pos = function XH -> 1 | XO p -> 2 * int_of_pos p | XI p -> 2 * int_of_pos p + 1
let int_of_n = function N0 -> 0 | Npos p -> int_of_pos p
let () =
  try while true do
    let t = Array.of_list (List.filter (fun s -> s <> "") (String.split_on_char ' ' (String.trim (input_line stdin)))) in
    if Array.length t >= 15 && t.(0) = "I" then begin
      let v i = int_of_string t.(i) in
      let bs = 1024 lsl (v 3) in
      let p = { p_blocks = n_of_int (v 2); p_bs = n_of_int bs; p_isz = n_of_int (v 4); p_inodes = n_of_int (v 5);
                p_bpg = n_of_int (v 6); p_first_data = n_of_int (if v 3 = 0 then 1 else 0); p_first_ino = n_of_int 11;
                p_sparse = v 7 = 1; p_sparse2 = v 8 = 1; p_bb0 = n_of_int (v 9); p_bb1 = n_of_int (v 10);
                p_resize_inode = v 11 = 1; p_meta_bg = v 12 = 1; p_64bit = v 13 = 1; p_rsv = n_of_int (v 14) } in
      match init_geom p with
      | IOk g -> Printf.printf "OK %d %d %d %d %d %d %d %d %d %d\n" (int_of_n g.r_blocks) (int_of_n g.r_bpg) (int_of_n g.r_groups)
                   (int_of_n g.r_desc_blocks) (int_of_n g.r_ipg) (int_of_n g.r_itb) (int_of_n g.r_inodes) (int_of_n g.r_rsv)
                   (if g.r_meta_bg then 1 else 0) (if g.r_resize_inode then 1 else 0)
      | ITooSmall -> print_endline "TOOSMALL"
      | ITooManyInodes -> print_endline "TOOMANY"
      | IResGdt -> print_endline "RESGDT"
      | IOutOfFuel -> print_endline "FUEL"
    end else print_endline "?"
  done with End_of_file -> ()

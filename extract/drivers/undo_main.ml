(* front end for the extracted undo model (C12): prints saved regions and device images *)
open Undo_model

let rec pos_of_int i = if i = 1 then XH else if i land 1 = 0 then XO (pos_of_int (i lsr 1)) else XI (pos_of_int (i lsr 1))
let n_of_int i = if i = 0 then N0 else Npos (pos_of_int i)
let rec int_of_pos = function XH -> 1 | XO p -> 2 * int_of_pos p | XI p -> 2 * int_of_pos p + 1
let int_of_n = function N0 -> 0 | Npos p -> int_of_pos p
let rec nat_of_int i = if i = 0 then O else S (nat_of_int (i - 1))
let unhex s = List.init (String.length s / 2) (fun i -> n_of_int (int_of_string ("0x" ^ String.sub s (2 * i) 2)))

(* the device image generator shared with props/c12.py *)
let pat seed o = (o * 131 + 7 * (o / 256) + seed) land 255

let () =
  let st = ref None and b = ref N0 and t = ref N0 and off = ref N0 and size = ref 0 in
  let dump d =
    let buf = Buffer.create (2 * !size) in
    List.iter (fun x -> Buffer.add_string buf (Printf.sprintf "%02x" (int_of_n x))) (rd_bytes d N0 (nat_of_int !size));
    Buffer.contents buf in
  (try
    while true do
      let line = input_line stdin in
      let toks = List.filter (fun s -> s <> "") (String.split_on_char ' ' (String.trim line)) in
      let n i = n_of_int (int_of_string (List.nth toks i)) in
      (* glue: after every step the device function is tabulated (same function, O(1) lookups) *)
      let tab d = let a = Array.init !size (fun i -> d (n_of_int i)) in
                  fun o -> let i = int_of_n o in if i < Array.length a then a.(i) else d o in
      let app o = (match !st with
                   | Some s -> let s' = ustep !b !t !off s o in
                               st := Some { s' with u_dsk = tab s'.u_dsk }
                   | None -> ()); print_endline "OK" in
      match toks with
      | [] -> ()
      | "N" :: sz :: seed :: bb :: tt :: oo :: _ ->
        size := int_of_string sz;
        let sd = int_of_string seed in
        let tbl = Array.init !size (fun i -> n_of_int (pat sd i)) in
        let d = fun o -> let i = int_of_n o in if i < Array.length tbl then tbl.(i) else N0 in
        b := n_of_int (int_of_string bb); t := n_of_int (int_of_string tt); off := n_of_int (int_of_string oo);
        st := Some (uinit d);
        print_endline "OK"
      | "W" :: _ -> app (UWr (n 1, n 2, unhex (List.nth toks 3)))
      | "WB" :: _ -> app (UWrB (n 1, unhex (List.nth toks 2)))
      | "WY" :: _ -> app (UWrByte (n 1, unhex (List.nth toks 2)))
      | "Z" :: _ -> app (UZero (n 1, n 2))
      | "REOPEN" :: _ -> app UReopen
      | "C" :: _ ->
        (match !st with
         | Some s ->
           print_endline "OK";
           print_endline ("KEYS " ^ String.concat "," (List.map (fun k ->
             Printf.sprintf "%d:%d" (int_of_n k.k_fsblk * int_of_n !b) (List.length k.k_data)) s.u_keys));
           print_endline ("AFTER " ^ dump s.u_dsk);
           print_endline ("UNDONE " ^ dump (e2undo !b !off s))
         | None -> ())
      | _ -> print_endline "?"
    done
  with End_of_file -> ())

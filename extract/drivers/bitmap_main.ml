(* line-protocol front end for the extracted bitmap models (C16) *)
open Bitmap_model

let rec pos_of_int i = if i = 1 then XH else if i land 1 = 0 then XO (pos_of_int (i lsr 1)) else XI (pos_of_int (i lsr 1))
let n_of_int i = if i = 0 then N0 else Npos (pos_of_int i)
let rec int_of_pos = function XH -> 1 | XO p -> 2 * int_of_pos p | XI p -> 2 * int_of_pos p + 1
let int_of_n = function N0 -> 0 | Npos p -> int_of_pos p

let bits_of_string s = List.init (String.length s) (fun i -> s.[i] = '1')
let string_of_bits l = String.concat "" (List.map (fun b -> if b then "1" else "0") l)

let show = function
  | RVoid -> "V"
  | RInt v -> Printf.sprintf "I %d" (int_of_n v)
  | RErr e -> Printf.sprintf "E %d" (int_of_n e)
  | RPos p -> Printf.sprintf "P %d" (int_of_n p)
  | RBits l -> "B " ^ string_of_bits l

let parse_op toks =
  let n i = n_of_int (int_of_string (List.nth toks i)) in
  match List.hd toks with
  | "RS" -> SResize (n 1, n 2)
  | _ -> SOp (match List.hd toks with
  | "M" -> Mark (n 1) | "U" -> Unmark (n 1) | "T" -> Test (n 1)
  | "MR" -> MarkRange (n 1, n 2) | "UR" -> UnmarkRange (n 1, n 2) | "TR" -> TestRange (n 1, n 2)
  | "FZ" -> FindZero (n 1, n 2) | "FS" -> FindSet (n 1, n 2)
  | "GR" -> GetRange (n 1, n 2)
  | "SR" -> SetRange (n 1, n 2, bits_of_string (if List.length toks > 3 then List.nth toks 3 else ""))
  | "CL" -> Clear | "PAD" -> SetPadding | "SNAP" -> Snapshot | "CMP" -> Compare
  | s -> failwith ("bad op " ^ s))

let () =
  let which = Sys.argv.(1) in
  let cur = ref None and ops = ref [] in
  let flush () =
    match !cur with
    | None -> ()
    | Some g ->
      let l = List.rev !ops in
      let r = match which with
        | "rb" -> run_rb g l
        | "ba" -> run_ba (n_of_int (if Array.length Sys.argv > 2 then int_of_string Sys.argv.(2) else 0)) g l
        | _ -> run_fs g l in
      print_endline "G";
      List.iter (fun x -> print_endline (show x)) r;
      cur := None; ops := [] in
  (try
    while true do
      let line = input_line stdin in
      let toks = List.filter (fun s -> s <> "") (String.split_on_char ' ' (String.trim line)) in
      match toks with
      | [] -> ()
      | "G" :: _ :: s :: e :: re :: cb :: _ ->
        flush ();
        let n x = n_of_int (int_of_string x) in
        cur := Some { g_start = n s; g_end = n e; g_real_end = n re; g_cbits = n cb }
      | _ -> ops := parse_op toks :: !ops
    done
  with End_of_file -> ());
  flush ()

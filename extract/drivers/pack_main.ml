(* front end for the extracted directory packing model (C05): "<B> <slack> <name_len> ..." -> blocks as "n:r n:r | n:r ..." *)
open Pack_model
let rec pos_of_int i = if i = 1 then XH else if i land 1 = 0 then XO (pos_of_int (i lsr 1)) else XI (pos_of_int (i lsr 1))
let n_of_int i = if i = 0 then N0 else Npos (pos_of_int i)
let rec int_of_pos = function XH -> 1 | XO p -> 2 * int_of_pos p | XI p -> 2 * int_of_pos p + 1
let int_of_n = function N0 -> 0 | Npos p -> int_of_pos p
let () =
  try while true do
    let t = List.filter (fun s -> s <> "") (String.split_on_char ' ' (String.trim (input_line stdin))) in
    match t with
    | b :: sl :: names ->
      let blocks = pack (n_of_int (int_of_string b)) (n_of_int (int_of_string sl)) (List.map (fun x -> n_of_int (int_of_string x)) names) in
      print_endline (String.concat " | " (List.map (fun blk -> String.concat " " (List.map (fun (n, r) -> Printf.sprintf "%d:%d" (int_of_n n) (int_of_n r)) blk)) blocks))
    | _ -> print_endline ""
  done with End_of_file -> ()

From E2V Require Import Parsers.DirWalk Parsers.EaValue Robust.Restart Robust.ItableLen Robust.MinGroups.
Require Extraction.
Require Import ExtrOcamlBasic.
Extraction Language OCaml.
Extraction "dirwalk_model.ml" dir_block_walk ea_value_ok restarts itable_len_new itable_len_old min_groups_new.

From E2V Require Import Parsers.DirWalk Parsers.EaValue.
Require Extraction.
Require Import ExtrOcamlBasic.
Extraction Language OCaml.
Extraction "dirwalk_model.ml" dir_block_walk ea_value_ok.

From E2V Require Import Gen.FeatureMasks Tune.FeatureEdit Tune.MntOpts.
Require Extraction.
Require Import ExtrOcamlBasic.
Extraction Language OCaml.
Extraction "tune_model.ml" tune2fs_edit mnt_step.

From E2V Require Import Populate.CopyChunk Populate.SeekAlign.
Require Extraction.
Require Import ExtrOcamlBasic.
Extraction Language OCaml.
Extraction "copychunk_model.ml" mapped_blocks copy_chunk data_blk hole_blk.

From E2V Require Import Layout.Layout Geometry.InitGeom.
Require Extraction.
Require Import ExtrOcamlBasic.
Extraction Language OCaml.
Extraction "initgeom_model.ml" init_geom.

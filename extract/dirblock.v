From E2V Require Import DirBlock.DirBlock DirBlock.DxSearch DirBlock.Nlink.
Require Extraction.
Require Import ExtrOcamlBasic.
Extraction Language OCaml.
Extraction "dirblock_model.ml" link_block unlink_block dx_leaf mkdir_parent.

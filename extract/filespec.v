From E2V Require Import FileIO.FileSpec.
Require Extraction.
Require Import ExtrOcamlBasic.
Extraction Language OCaml.
Extraction "filespec_model.ml" f_step.

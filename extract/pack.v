From E2V Require Import Rehash.Pack.
Require Extraction.
Require Import ExtrOcamlBasic.
Extraction Language OCaml.
Extraction "pack_model.ml" pack.

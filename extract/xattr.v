From E2V Require Import Xattr.XattrPack.
Require Extraction.
Require Import ExtrOcamlBasic.
Extraction Language OCaml.
Extraction "xattr_model.ml" place fits.

From E2V Require Import Xattr.XattrPack Xattr.XattrSort Xattr.XattrSet.
Require Extraction.
Require Import ExtrOcamlBasic.
Extraction Language OCaml.
Extraction "xattr_model.ml" place fits sortedb insert_key sorted_lookup xset xremove.

# ./check --setup : build everything a check needs from files on disk (offline)
import importlib, json, os, sys
import e2v


def main():
    src = e2v.ensure_build()
    e2v.coq_makefile()
    r = e2v.coq_build(["all"], timeout=3000)
    if not r["ok"]:
        print(r["log"][-4000:])
        print("setup: Coq build failed", file=sys.stderr)
        return 1
    man = json.load(open(os.path.join(e2v.VERIF, "MANIFEST.json")))
    for c in man["checks"]:
        mod = importlib.import_module("props." + c["property_id"].lower())
        if hasattr(mod, "setup"):
            mod.setup(src)
    print("setup ok")
    return 0
